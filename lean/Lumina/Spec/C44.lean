/-
  C44 — gRPC calls fail over across endpoints.

  "A gRPC call returns an error only after every configured endpoint failed with a network error
   or some endpoint returned a non-network error; the endpoint that succeeds becomes the first one
   tried next, and the set of endpoints never changes under concurrent calls."

  Stated over what the fake endpoints and the caller observe, without the model's step function.
  Network errors are quoted from the property's source (`Error::is_network_error`): gRPC codes
  Unavailable 14, Unknown 2, DeadlineExceeded 4, Aborted 10, and failures of the transport itself.
-/
namespace Lumina.Spec.C44

/-- what an endpoint answered -/
inductive Ans where
  | ok
  | badPayload
  | status (code : Nat)
  | transport
  deriving DecidableEq, Repr

def network : Ans → Bool
  | .status c => c == 14 || c == 2 || c == 4 || c == 10
  | .transport => true
  | _ => false

/-- the error code the caller sees for a failed answer (a transport failure surfaces as Unknown) -/
def codeOf : Ans → Option Nat
  | .status c => some c
  | .transport => some 2
  | _ => none

inductive Res where
  | ok (e : Nat)
  | parseErr (e : Nat)
  | err (code : Nat) (src : Nat)
  deriving DecidableEq, Repr

/-- one finished call as observed: the endpoints it sent requests to with their answers, in
    order, and what the caller got back -/
structure CallObs where
  tried : List (Nat × Ans)
  result : Res
  deriving DecidableEq, Repr

def distinct : List Nat → Bool
  | [] => true
  | x :: xs => !xs.contains x && distinct xs

/-- verdict on one finished call against the configured endpoints -/
def specCall (config : List Nat) (o : CallObs) : Bool :=
  let eps := o.tried.map (·.1)
  -- only configured endpoints, each at most once
  distinct eps && eps.all config.contains &&
  -- the call went on to the next endpoint only after a network error
  o.tried.dropLast.all (fun p => network p.2) &&
  (match o.result, o.tried.getLast? with
   | .ok e, some (e', a) => e == e' && a == .ok
   | .parseErr e, some (e', a) => e == e' && a == .badPayload
   | .err code src, some (e', a) =>
     src == e' && codeOf a == some code &&
     -- an error is returned only after EVERY configured endpoint failed with a network error,
     -- or this endpoint returned a non-network error
     (!network a || config.all eps.contains)
   | _, none => false)

/-- "the endpoint that succeeds becomes the first one tried next": `expected` is the endpoint of
    the last successful call when that call did not overlap any other (otherwise `none`) -/
def specFirst (expected : Option Nat) (first : Nat) : Bool :=
  match expected with
  | some e => e == first
  | none => true

/-- "the set of endpoints never changes": an observed register order is a rearrangement of the
    configured (distinct) endpoints -/
def specOrder (config order : List Nat) : Bool :=
  order.length == config.length && distinct order && config.all order.contains

/-- What clause 2 means when calls OVERLAP.  "The endpoint that succeeds becomes the first one
    tried next" has no literal meaning when two calls succeed concurrently at different endpoints.
    What an observer can demand under ANY interleaving: a call that succeeded only after failing
    over (it tried more than one endpoint) promotes its endpoint, and that endpoint stays first
    until the next such success; a call that succeeded at the first endpoint it tried changes
    nothing.  So the first endpoint tried by any call is the endpoint of the most recent
    fail-over success, or the first configured endpoint if there was none.  For calls that
    overlap no other this implies the literal clause (checked separately by `specFirst`). -/
def specFirstAny (config : List Nat) (lastFailover : Option Nat) (first : Nat) : Bool :=
  match lastFailover with
  | some e => e == first
  | none => config.head? == some first

/-- spec-side bookkeeping for sequential/controlled histories (from the ops and the results) -/
structure Hist where
  config : List Nat
  /-- calls in flight, with "has overlapped another call" -/
  inflight : List (Nat × Bool)
  /-- endpoint of the last successful call, when that call overlapped no other -/
  expectFirst : Option Nat
  /-- endpoint of the most recent success that tried more than one endpoint -/
  lastFailover : Option Nat
  deriving DecidableEq, Repr

def Hist.new (config : List Nat) : Hist :=
  { config := config, inflight := [], expectFirst := none, lastFailover := none }

def Hist.start (h : Hist) (c : Nat) : Hist :=
  if h.inflight.isEmpty then { h with inflight := [(c, false)] }
  else { h with inflight := (c, true) :: h.inflight.map (fun p => (p.1, true)) }

def Hist.overlapped (h : Hist) (c : Nat) : Bool :=
  match h.inflight.find? (fun p => p.1 == c) with
  | some p => p.2
  | none => true

/-- a call finished; `ntried` = number of endpoints it sent requests to -/
def Hist.finish (h : Hist) (c : Nat) (r : Res) (ntried : Nat) : Hist :=
  let ov := h.overlapped c
  let rest := h.inflight.filter (fun p => p.1 != c)
  match r with
  | .ok e => { h with inflight := rest, expectFirst := if ov then none else some e,
                      lastFailover := if ntried > 1 then some e else h.lastFailover }
  | .parseErr e => { h with inflight := rest, expectFirst := if ov then none else some e,
                            lastFailover := if ntried > 1 then some e else h.lastFailover }
  | .err _ _ => { h with inflight := rest }

def Hist.drop (h : Hist) (c : Nat) : Hist :=
  { h with inflight := h.inflight.filter (fun p => p.1 != c) }

end Lumina.Spec.C44

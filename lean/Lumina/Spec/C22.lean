/-
  C22 — The persistent store survives crashes at any point.

  "If the process crashes at any point while a sequence of operations runs on the redb store,
   reopening it succeeds and yields a state equal to the state after some prefix of the
   operations that includes every operation that had returned success, with header, hash and
   range indexes mutually consistent."

  Decidable checkers over what is OBSERVED after a crash + reopen.  The logical states are
  compared as values of any type with decidable equality (`specCrash` is generic); index
  consistency is stated on the concrete table dump `CrashStore.St` (plain data).
-/
import Lumina.Model.CrashStore

namespace Lumina.Spec.C22
open Lumina.Model.CrashStore (St Hdr)

/-- `states` = the state before the history and after each of its operations in order
    (`states[k]` = state after the first `k` operations); `returned` = how many operations had
    returned to their caller when the crash hit; `reopenedOk` = reopening succeeded;
    `observed` = the state the reopened store shows.

    The property: reopening succeeds, and the observed state is the state after some prefix of
    length `k ≥ returned` (every operation that had returned — in particular every one that
    had returned success — is included). -/
def specCrash {S : Type} [BEq S] (states : List S) (returned : Nat) (reopenedOk : Bool) (observed : S) : Bool :=
  reopenedOk && (states.drop returned).any (fun s => s == observed)

/-- the sharper form the model satisfies: the prefix has length `returned` or `returned + 1`
    (at most the one operation that was in flight is in doubt) -/
def specCrashSharp {S : Type} [BEq S] (states : List S) (returned : Nat) (reopenedOk : Bool) (observed : S) : Bool :=
  reopenedOk && ((states.drop returned).take 2).any (fun s => s == observed)

def lookupH (k : Nat) : List (Nat × Hdr) → Option Hdr
  | [] => none
  | e :: r => if e.1 = k then some e.2 else lookupH k r

/-- **header, hash and range indexes mutually consistent** -/
def consistent (st : St) : Bool :=
  -- the headers table holds exactly the stored heights, each header under its own height
  (st.headers.map (fun e => e.1) == st.stored) &&
  st.headers.all (fun e => e.2.height == e.1) &&
  -- the hash index is exactly the inverse of the headers table
  (st.heights.length == st.headers.length) &&
  st.headers.all (fun e => st.heights.contains (e.2.name, e.1)) &&
  -- stored headers at neighbouring heights are hash-linked
  st.headers.all (fun e =>
    match lookupH (e.1 + 1) st.headers with
    | some n => n.parent == e.2.name
    | none => true) &&
  -- range tables: sampled ⊆ stored, pruned ∩ stored = ∅, metadata only for stored heights
  st.sampled.all (fun h => st.stored.contains h) &&
  st.pruned.all (fun h => !st.stored.contains h) &&
  st.smeta.all (fun e => st.stored.contains e.1) &&
  -- an opened store has an identity
  (!st.opened || st.identity != 0)

end Lumina.Spec.C22

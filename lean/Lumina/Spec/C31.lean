/-
  C31 — Network head selection follows the best-head rule.

  "A head request resolves to the highest header reported by at least two trusted peers if any
   header has such agreement, otherwise to the highest reported header; it is sent only to
   connected trusted peers and every waiting caller receives the same answer."

  Decidable checkers over OBSERVED behaviour; nothing here refers to the model.
  A peer "reports" a header when its answer is exactly one valid header.
-/
import Lumina.Model.Util

namespace Lumina.Spec.C31
open Lumina.Util

structure Hdr where
  height : Nat
  hash : Bytes
  deriving DecidableEq, Repr

/-- number of peers that reported (a header with the hash of) `h` -/
def votes (reported : List Hdr) (h : Hdr) : Nat := reported.countP (fun x => x.hash == h.hash)

/-- the best-head rule; `none` only when nothing was reported -/
def specBestHead (reported : List Hdr) (r : Option Hdr) : Bool :=
  match r with
  | none => reported.isEmpty
  | some h =>
    reported.contains h &&
    (if reported.any (fun x => votes reported x ≥ 2) then
       decide (votes reported h ≥ 2) &&
       reported.all (fun x => decide (votes reported x ≥ 2 → x.height ≤ h.height))
     else reported.all (fun x => decide (x.height ≤ h.height)))

structure PeerInfo where
  id : Nat
  connected : Bool
  trusted : Bool
  deriving DecidableEq, Repr

/-- recipients: connected trusted peers only, each at most once; at most 10 requests; nobody
    eligible is left out while fewer than 10 were asked -/
def specRecipients (peers : List PeerInfo) (sent : List Nat) : Bool :=
  sent.all (fun i => peers.any (fun p => p.id == i && p.connected && p.trusted)) &&
  sent.Nodup && decide (sent.length ≤ 10) &&
  (sent.length == 10 ||
    (peers.filter (fun p => p.connected && p.trusted)).all (fun p => sent.contains p.id))

/-- fan-out: every waiting caller receives the chosen head, exactly once, and nobody else does -/
def specFanout (waiting : List Nat) (h : Hdr) (answers : List (Nat × Hdr)) : Bool :=
  answers.all (fun a => a.2 == h) && answers.map (·.1) == waiting

end Lumina.Spec.C31

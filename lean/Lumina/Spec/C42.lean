/-
  C42 — Task join handles resolve exactly when the task ends.

  "A join handle resolves only after its spawned task has finished, panicked or been cancelled,
   and always resolves after that; a cancellable task stops when its token is cancelled."

  Observable meaning used here: a task "has ended" when its inner future no longer exists — the
  harness's inner futures log their own `Drop` (which happens on completion, on unwinding from a
  panic, when `select!` abandons them on cancellation, and when the runtime drops the task).

  * quiescent observations (controlled histories: the runtime is idle between ops):
    `specJoin`, `specTick`;
  * concurrent traces (globally stamped events of a multi-threaded run): `specTrace`.
-/
namespace Lumina.Spec.C42

/-- verdict on one `join` probe in a quiescent state: it resolves iff the task has ended -/
def specJoin (resolved ended : Bool) : Bool := resolved == ended

/-- what the op history says about the tasks (from the op lines only) -/
structure Hist where
  /-- (id, cancellable, cancellation token) -/
  tasks : List (Nat × Bool × Nat)
  cancelled : List Nat
  deriving Repr, DecidableEq

def Hist.empty : Hist := { tasks := [], cancelled := [] }

def Hist.mustStop (h : Hist) (i : Nat) : Bool :=
  h.tasks.any (fun t => t.1 == i && t.2.1 && h.cancelled.contains t.2.2)

/-- verdict on one scheduler tick in a quiescent history: no task whose token is cancelled had
    its inner future polled, and none of them is still alive afterwards -/
def specTick (h : Hist) (polled alive : List Nat) : Bool :=
  polled.all (fun i => !h.mustStop i) && alive.all (fun i => !h.mustStop i)

/-- events of a concurrent run -/
inductive Ev where
  /-- task `i` is about to be spawned (cancellable?, token) -/
  | spawn (i : Nat) (c : Bool) (tok : Nat)
  /-- a poll of task `i`'s inner future begins -/
  | poll (i : Nat)
  /-- task `i`'s inner future is dropped: the task has ended -/
  | ended (i : Nat)
  /-- `cancel()` on token `tok` has returned -/
  | cancelDone (tok : Nat)
  /-- `join()` on task `i`'s handle has returned -/
  | joined (i : Nat)
  deriving Repr, DecidableEq

/-- "resolves only after the task has ended": every `joined i` is preceded by `ended i` -/
def specSafe : List Ev → List Ev → Bool
  | _, [] => true
  | seen, .joined i :: rest => seen.contains (.ended i) && specSafe (.joined i :: seen) rest
  | seen, e :: rest => specSafe (e :: seen) rest

/-- "and always resolves after that": every task observed to end is observed to be joined
    (the harness joins every handle, with a time-out) -/
def specLive (tr : List Ev) : Bool :=
  tr.all (fun e => match e with
    | .ended i => tr.contains (.joined i)
    | _ => true)

def countPollsAfter (i tok : Nat) : List Ev → Nat
  | [] => 0
  | .cancelDone t :: rest =>
    if t == tok then (rest.filter (fun e => e == .poll i)).length else countPollsAfter i tok rest
  | _ :: rest => countPollsAfter i tok rest

/-- "a cancellable task stops when its token is cancelled": once `cancel()` has returned, at most
    one more poll of the inner future begins (the one whose cancellation check came before), and
    the task ends -/
def specCancel (tr : List Ev) : Bool :=
  tr.all (fun e => match e with
    | .spawn i true tok =>
      !tr.contains (.cancelDone tok) || (countPollsAfter i tok tr ≤ 1 && tr.contains (.ended i))
    | _ => true)

def specTrace (tr : List Ev) : Bool := specSafe [] tr && specLive tr && specCancel tr

end Lumina.Spec.C42

/-
  C19 — the abstract header store: the specification both store implementations must conform to.

  Written without any function of the store or `BlockRanges` models: a state is
    * a finite set of stored headers, read as the two finite maps
      `height ↦ header` (`atHeight`) and `hash ↦ header / height` (`byHash`),
    * the finite sets `sampled` and `pruned` of heights,
    * the sampling metadata `height ↦ list of CIDs`,
  and every call of the `Store` trait is described set-theoretically (`step`).  Range-valued
  answers are the canonical interval representation of the set (`rangesOf`).

  `specOK` compares an OBSERVED result with the abstract one; `invOK` is the decidable form of
  the invariants the property names (sampled ⊆ stored, pruned ∩ stored = ∅, both indexes
  single-valued).

  Import-free apart from the shared vocabulary `Lumina.Model.StoreTypes`.
-/
import Lumina.Model.StoreTypes

namespace Lumina.Spec.C19

open Lumina.Model.Store (Hdr Hash Cid Err RErr Op Out Res Bound appendDedup)

structure AbsStore where
  /-- the stored headers -/
  hdrs : List Hdr
  /-- heights marked as sampled -/
  sampled : List Nat
  /-- heights removed (pruned) and not stored again since -/
  pruned : List Nat
  /-- sampling metadata -/
  metas : List (Nat × List Cid)
deriving Repr

def init : AbsStore := { hdrs := [], sampled := [], pruned := [], metas := [] }

namespace AbsStore

/-- the map height ↦ header -/
def atHeight (a : AbsStore) (h : Nat) : Option Hdr := a.hdrs.find? (fun x => x.height == h)
/-- the map hash ↦ header (hence hash ↦ height) -/
def byHash (a : AbsStore) (q : Hash) : Option Hdr := a.hdrs.find? (fun x => x.hash == q)
def stored (a : AbsStore) (h : Nat) : Bool := (a.atHeight h).isSome
def isSampled (a : AbsStore) (h : Nat) : Bool := a.sampled.contains h
def isPruned (a : AbsStore) (h : Nat) : Bool := a.pruned.contains h
def metaOf (a : AbsStore) (h : Nat) : Option (List Cid) :=
  (a.metas.find? (fun p => p.1 == h)).map (fun p => p.2)

end AbsStore

/-- least upper bound of a list of naturals (0 for the empty list) -/
def sup : List Nat → Nat
  | [] => 0
  | x :: rest => max x (sup rest)

/-- the maximal intervals of `{h < n | p h}`, highest interval first -/
def runsDesc (p : Nat → Bool) : Nat → List (Nat × Nat)
  | 0 => []
  | n + 1 =>
    if p n then
      match runsDesc p n with
      | (a, b) :: rest => if b + 1 = n then (a, n) :: rest else (n, n) :: (a, b) :: rest
      | [] => [(n, n)]
    else runsDesc p n

/-- canonical interval representation (ascending, disjoint, non-adjacent) of `{h ≤ bound | p h}` -/
def rangesOf (p : Nat → Bool) (bound : Nat) : List (Nat × Nat) := (runsDesc p (bound + 1)).reverse

namespace AbsStore

def storedRanges (a : AbsStore) : List (Nat × Nat) := rangesOf a.stored (sup (a.hdrs.map (·.height)))
def sampledRanges (a : AbsStore) : List (Nat × Nat) := rangesOf a.isSampled (sup a.sampled)
def prunedRanges (a : AbsStore) : List (Nat × Nat) := rangesOf a.isPruned (sup a.pruned)

/-- greatest stored height -/
def headHeight (a : AbsStore) : Option Nat :=
  if a.hdrs.isEmpty then none else some (sup (a.hdrs.map (·.height)))

end AbsStore

/-- a span of headers is internally verified: consecutive heights, each header verifies
    against its predecessor -/
def chainOK (verify : Hdr → Hdr → Bool) : List Hdr → Bool
  | [] => true
  | [_] => true
  | a :: b :: rest => (a.height + 1 == b.height) && verify a b && chainOK verify (b :: rest)

/-- first header, in batch order, whose hash is already known (stored, or earlier in the batch) -/
def firstDupHash (known : List Hash) : List Hdr → Option Hash
  | [] => none
  | x :: rest => if known.contains x.hash then some x.hash else firstDupHash (x.hash :: known) rest

def between (lo hi h : Nat) : Bool := decide (lo ≤ h) && decide (h ≤ hi)

namespace AbsStore

/-- the first header of a batch verifies against the stored header just below it, if any -/
def prevOK (verify : Hdr → Hdr → Bool) (a : AbsStore) (first : Hdr) : Bool :=
  match a.atHeight (first.height - 1) with
  | some p => verify p first
  | none => true

/-- the stored header just above a batch, if any, verifies against the last header of the batch -/
def nextOK (verify : Hdr → Hdr → Bool) (a : AbsStore) (last : Hdr) : Bool :=
  match a.atHeight (last.height + 1) with
  | some n => verify last n
  | none => true

/-- where the span `[lo, hi]` may go: it is a valid range (no height 0, not reversed), and it is
    entirely above everything stored, or it is disjoint from the stored set and touches it -/
def placement (a : AbsStore) (lo hi : Nat) : Except Err Unit :=
  if lo == 0 || decide (lo > hi) then .error (.constraintsNotMet .invalid)
  else
    let aboveAll := a.hdrs.all (fun x => decide (x.height < lo))
    if !aboveAll && a.hdrs.any (fun x => between lo hi x.height) then
      .error (.constraintsNotMet .overlap)
    else if !aboveAll && !a.stored (lo - 1) && !a.stored (hi + 1) then
      .error (.constraintsNotMet .noAdjacent)
    else .ok ()

/-- the checks of an insertion, in this order: the batch is internally verified; its span
    `[lo, hi]` can be placed (`placement`); the batch verifies against the stored neighbours
    `lo-1` and `hi+1` if present; no hash is repeated.
    `ok none` = empty batch (nothing to do), `ok (some (lo, hi))` = accepted span. -/
def insertCheck (verify : Hdr → Hdr → Bool) (a : AbsStore) (batch : List Hdr) :
    Except Err (Option (Nat × Nat)) :=
  match batch.head?, batch.getLast? with
  | some first, some last =>
    if !chainOK verify batch then .error .headersVerificationFailed
    else
      match placement a first.height last.height with
      | .error e => .error e
      | .ok () =>
        if !prevOK verify a first || !nextOK verify a last then .error .neighborsVerificationFailed
        else
          match firstDupHash (a.hdrs.map (·.hash)) batch with
          | some q => .error (.hashExists q)
          | none => .ok (some (first.height, last.height))
  | _, _ => .ok none

/-- insertion of a batch: if the checks pass the headers are stored and their heights leave
    `sampled` and `pruned`; otherwise nothing changes -/
def insert (verify : Hdr → Hdr → Bool) (a : AbsStore) (batch : List Hdr) : AbsStore × Res :=
  match insertCheck verify a batch with
  | .error e => (a, .err e)
  | .ok none => (a, .ok .unit)
  | .ok (some (lo, hi)) =>
    ({ a with hdrs := a.hdrs ++ batch,
              sampled := a.sampled.filter (fun h => !between lo hi h),
              pruned := a.pruned.filter (fun h => !between lo hi h) }, .ok .unit)

def remove (a : AbsStore) (h : Nat) : AbsStore × Res :=
  if !a.stored h then (a, .err .notFound)
  else
    ({ hdrs := a.hdrs.filter (fun x => x.height != h),
       sampled := a.sampled.filter (fun x => x != h),
       pruned := h :: a.pruned,
       metas := a.metas.filter (fun p => p.1 != h) }, .ok .unit)

def mark (a : AbsStore) (h : Nat) : AbsStore × Res :=
  if !a.stored h then (a, .err .notFound)
  else ({ a with sampled := h :: a.sampled }, .ok .unit)

/-- the first metadata of a height is stored as given; later updates append the CIDs that are
    not yet present -/
def updateMeta (a : AbsStore) (h : Nat) (cids : List Cid) : AbsStore × Res :=
  if !a.stored h then (a, .err .notFound)
  else
    let entry := match a.metaOf h with
      | some prev => appendDedup prev cids
      | none => cids
    ({ a with metas := (h, entry) :: a.metas.filter (fun p => p.1 != h) }, .ok .unit)

/-- `get_range`: resolve the bounds against the head (`None` = `NotFound`) -/
def resolve (lo hi : Bound) (head : Nat) : Option (Nat × Nat) :=
  let start : Option Nat := match lo with
    | .unbounded => some 1
    | .included x => if 1 ≤ x ∧ x ≤ head then some x else none
    | .excluded x => if x < head then some (x + 1) else none
  let end_ : Option Nat := match hi with
    | .unbounded => some head
    | .included x => if x ≤ head then some x else none
    | .excluded x => if x ≤ head + 1 then some (x - 1) else none
  match start, end_ with
  | some s, some e => some (s, e)
  | _, _ => none

/-- the headers at heights `s, s+1, …` (`n` of them), `none` if one is missing -/
def span (a : AbsStore) : Nat → Nat → Option (List Hdr)
  | _, 0 => some []
  | s, n + 1 =>
    match a.atHeight s, span a (s + 1) n with
    | some h, some rest => some (h :: rest)
    | _, _ => none

def getRange (a : AbsStore) (lo hi : Bound) : Res :=
  match a.headHeight with
  | none => .err .notFound
  | some head =>
    match resolve lo hi head with
    | none => .err .notFound
    | some (s, e) =>
      match a.span s (e + 1 - s) with
      | some l => .ok (.hdrs l)
      | none => .err .notFound

def optHdr : Option Hdr → Res
  | some h => .ok (.hdr h)
  | none => .err .notFound

/-- one call of the `Store` trait on the abstract store -/
def step (verify : Hdr → Hdr → Bool) (a : AbsStore) : Op → AbsStore × Res
  | .insert batch => a.insert verify batch
  | .remove h => a.remove h
  | .mark h => a.mark h
  | .updMeta h cids => a.updateMeta h cids
  | .getByHeight h => (a, optHdr (a.atHeight h))
  | .hasAt h => (a, .ok (.bool (a.stored h)))
  | .getByHash q => (a, optHdr (a.byHash q))
  | .has q => (a, .ok (.bool (a.byHash q).isSome))
  | .getMeta h => (a, if a.stored h then .ok (.md (a.metaOf h)) else .err .notFound)
  | .head => (a, match a.headHeight with
      | some h => optHdr (a.atHeight h)
      | none => .err .notFound)
  | .headHeight => (a, match a.headHeight with
      | some h => .ok (.nat h)
      | none => .err .notFound)
  | .getRange lo hi => (a, a.getRange lo hi)
  | .storedRanges => (a, .ok (.ranges a.storedRanges))
  | .sampledRanges => (a, .ok (.ranges a.sampledRanges))
  | .prunedRanges => (a, .ok (.ranges a.prunedRanges))

end AbsStore

/-- no repetition -/
def nodupB {α} [DecidableEq α] : List α → Bool
  | [] => true
  | x :: rest => !rest.contains x && nodupB rest

/-- the invariants the property names, on an abstract state: both indexes are single-valued
    (a height / a hash identifies at most one stored header), no height 0, sampled ⊆ stored,
    pruned ∩ stored = ∅, metadata only for stored heights -/
def invOK (a : AbsStore) : Bool :=
  nodupB (a.hdrs.map (·.height)) && nodupB (a.hdrs.map (·.hash)) &&
  a.hdrs.all (fun x => decide (1 ≤ x.height)) &&
  a.sampled.all (fun h => a.stored h) &&
  a.pruned.all (fun h => !a.stored h) &&
  a.metas.all (fun p => a.stored p.1)

/-- an observed result conforms when it is the abstract store's result -/
def specOK (expected observed : Res) : Bool := decide (expected = observed)

end Lumina.Spec.C19

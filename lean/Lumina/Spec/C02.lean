/-
  C02 — Header chain verification accepts exactly linked successors.

  The property in its own terms, as decidable checkers over OBSERVED verdicts.  Numbers quoted
  literally: ten seconds (10 000 000 000 ns), one third.

  A header, as far as this property is concerned (`H`): height, chain id, time (unix ns), the
  hash it carries, the hash of its parent it names, the hash of its validator set, the hash of
  the NEXT validator set it announces, its validator set (powers, addresses) and the entries of
  its commit.  For a pair (trusted t, untrusted u): `valid i j` = "the signature of entry j of u's
  commit is a valid signature of validator i of t's set" (idealised signature oracle, arbitrary);
  range checks take one such oracle per step.
-/
import Lumina.Spec.C03

namespace Lumina.Spec.C02
open Lumina.Spec.C03 (Entry validPowerTrusting)

abbrev Hash := Option (List UInt8)

structure H where
  height : Nat
  chainId : List UInt8
  time : Int
  hash : Hash
  parentHash : Hash
  validatorsHash : Hash
  nextValidatorsHash : Hash
  powers : List Nat
  vaddrs : List (List UInt8)
  entries : List Entry

abbrev Valid := Nat → Nat → Bool

/-- power of DISTINCT validators of `t`'s set with valid block-commit signatures in `u`'s commit -/
def trustedPower (valid : Valid) (t u : H) : Nat :=
  validPowerTrusting
    { powers := t.powers, vaddrs := t.vaddrs, entries := u.entries, height := 0, commitHeight := 0 }
    valid

/-- `u` is a linked successor of `t` at local time `now`:
    greater height, same chain id, strictly later time, less than ten seconds ahead of the clock;
    adjacent ⇒ names `t` as parent and `t`'s next validator set as its own;
    non-adjacent ⇒ trusted validators with valid signatures hold more than one third of `t`'s power -/
def linkOK (valid : Valid) (now : Int) (t u : H) : Bool :=
  decide (u.height > t.height) && (u.chainId == t.chainId) &&
  decide (u.time > t.time) && decide (u.time < now + 10000000000) &&
  (if u.height = t.height + 1 then
     (u.parentHash == t.hash) && (u.validatorsHash == t.nextValidatorsHash)
   else decide (3 * trustedPower valid t u > 1 * t.powers.sum))

/-- **verify succeeds only if …** -/
def specVerify (valid : Valid) (now : Int) (t u : H) (accepted : Bool) : Bool :=
  !accepted || linkOK valid now t u

/-- for ADJACENT headers the conditions are also sufficient: accepted exactly when linked -/
def specVerifyAdjacentExact (valid : Valid) (now : Int) (t u : H) (accepted : Bool) : Bool :=
  !decide (u.height = t.height + 1) || (accepted == linkOK valid now t u)

/-- `verify_adjacent`: accepted exactly when the header is adjacent and linked -/
def specVerifyAdjacentOp (valid : Valid) (now : Int) (t u : H) (accepted : Bool) : Bool :=
  accepted == (decide (u.height = t.height + 1) && linkOK valid now t u)

/-- every element links to its predecessor and heights are consecutive (steps numbered from `i`) -/
def chainOK (valids : Nat → Valid) (now : Int) : Nat → H → List H → Bool
  | _, _, [] => true
  | i, p, u :: rest =>
    decide (u.height = p.height + 1) && linkOK (valids i) now p u && chainOK valids now (i + 1) u rest

/-- **range verification accepts a list only if every element verifies against its predecessor
    and heights are consecutive** (the first element need not be adjacent to the trusted header) -/
def specRange (valids : Nat → Valid) (now : Int) (t : H) (l : List H) (accepted : Bool) : Bool :=
  !accepted || (match l with
    | [] => true
    | u :: rest => linkOK (valids 0) now t u && chainOK valids now 1 u rest)

/-- `verify_adjacent_range` / `VerifiedExtendedHeaders`: additionally the first is adjacent -/
def specAdjacentRange (valids : Nat → Valid) (now : Int) (t : H) (l : List H) (accepted : Bool) : Bool :=
  !accepted || chainOK valids now 0 t l

/-- range verification of adjacent chains is exact as well -/
def specAdjacentRangeExact (valids : Nat → Valid) (now : Int) (t : H) (l : List H) (accepted : Bool) : Bool :=
  accepted == chainOK valids now 0 t l

end Lumina.Spec.C02

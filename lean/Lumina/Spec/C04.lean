/-
  C04 — A verified sample is the share at the requested coordinates.

  The property as decidable checkers over observed results, independent of the model: the square is the
  plain row-major list of share byte strings, "the share at (row, column)" is list indexing.
-/
import Lumina.Model.Util

namespace Lumina.Spec.C04
open Lumina.Util

/-- the share at `(row, col)` of the row-major square `sq` of width `w` (`none` outside the square) -/
def shareAt (w : Nat) (sq : List Bytes) (row col : Nat) : Option Bytes :=
  if row < w ∧ col < w then sq[row * w + col]? else none

/-- soundness: "accepts a sample only if its share is exactly the share at that row and column of the square
    committed by the block's DAH, whichever axis the proof uses" -/
def specVerify (w : Nat) (sq : List Bytes) (row col : Nat) (share : Bytes) (accepted : Bool) : Bool :=
  !accepted || shareAt w sq row col == some share

/-- completeness: "honest samples, after encoding and decoding, are always accepted" — for a coordinate inside
    the square the decoded sample carries the share at that coordinate and verification accepts it -/
def specHonest (w : Nat) (sq : List Bytes) (row col : Nat) (decodedShare : Option Bytes) (accepted : Bool) : Bool :=
  match shareAt w sq row col with
  | some s => accepted && decodedShare == some s
  | none => true

end Lumina.Spec.C04

/-
  C08 — The extended square is a two-dimensional erasure code.

  "For any valid original data square, the extended square keeps it as its first quadrant and every one of its rows
  and columns is a codeword: any half of the shares of an axis reconstructs that whole axis.  Malformed inputs
  (non-square, non-power-of-two width, out-of-bounds size, unsorted namespaces, wrong share size) are rejected."

  Decidable checkers over OBSERVED results; squares are plain row-major lists of share byte strings.  "Codeword" is
  relative to a reference encoder `enc` (`k` data symbols ↦ `k` parity symbols): in the theorems an arbitrary
  function with the stated hypotheses, in the correspondence the real leopard codec (as a table of recorded calls).
  The construction model (`Lumina.Model.EdsCode`) is not mentioned.
-/
import Lumina.Model.Nmt
import Lumina.Spec.C14

namespace Lumina.Spec.C08
open Lumina.Util
open Lumina.Model.Nmt (ltB)

def rowOf (w : Nat) (sq : List Bytes) (r : Nat) : List Bytes := (List.range w).map (fun c => sq.getD (r * w + c) [])
def colOf (w : Nat) (sq : List Bytes) (c : Nat) : List Bytes := (List.range w).map (fun r => sq.getD (r * w + c) [])

/-- first quadrant of a row-major square of width `w` -/
def quadrant0 (w : Nat) (sq : List Bytes) : List Bytes :=
  (List.range (w / 2)).flatMap (fun r => (List.range (w / 2)).map (fun c => sq.getD (r * w + c) []))

/-- `axis` is `k` data symbols followed by exactly their parity -/
def isCodeword (enc : List Bytes → List Bytes) (k : Nat) (axis : List Bytes) : Bool :=
  axis.length == 2 * k && axis.drop k == enc (axis.take k)

inductive Obs where
  /-- accepted: width and row-major shares of the extended square -/
  | ok (w : Nat) (sq : List Bytes)
  | err
  deriving DecidableEq, Repr

/-- an accepted extension keeps the original square as its first quadrant and all its `2w` axes are codewords -/
def specExtend (enc : List Bytes → List Bytes) (ods : List Bytes) (o : Obs) : Bool :=
  match o with
  | .err => true
  | .ok w sq =>
    quadrant0 w sq == ods && sq.length == w * w && w % 2 == 0 &&
    (List.range w).all (fun i => isCodeword enc (w / 2) (rowOf w sq i) && isCodeword enc (w / 2) (colOf w sq i))

/-- erase the shares where `mask` is `false` (an erased share is the empty byte string, as leopard expects) -/
def erase (mask : List Bool) (axis : List Bytes) : List Bytes :=
  List.zipWith (fun keep s => if keep then s else []) mask axis

/-- "any half of the shares of an axis reconstructs that whole axis" -/
def specReconstruct (full : List Bytes) (o : Option (List Bytes)) : Bool := o == some full

/-! ### malformed inputs -/

/-- upper bound of the ORIGINAL square width for an app version: 128 up to version 5, 512 from version 6 -/
def maxOdsWidth (ver : Nat) : Nat := if ver ≤ 5 then 128 else 512

/-- not a square number of shares -/
def notSquare (n : Nat) : Bool := (List.range (n + 1)).all (fun w => w * w != n)

/-- the width (`w * w = n`) is not a power of two -/
def widthNotPow2 (n : Nat) : Bool :=
  (List.range (n + 1)).any (fun w => w * w == n && !(List.range (w + 1)).any (fun j => 2 ^ j == w))

/-- a share whose size is not 512 -/
def wrongShareSize (shares : List Bytes) : Bool := shares.any (fun s => s.length != 512)

/-- the namespace a share at `(r, c)` of an EXTENDED square of width `w` is ordered by -/
def nsAt (w : Nat) (sq : List Bytes) (r c : Nat) : Bytes :=
  if r < w / 2 ∧ c < w / 2 then (sq.getD (r * w + c) []).take 29 else List.replicate 29 255

/-- some row or column of the extended square of width `w` has a namespace smaller than its predecessor's -/
def unsortedEds (w : Nat) (sq : List Bytes) : Bool :=
  (List.range w).any (fun i => (List.range (w - 1)).any (fun j =>
    ltB (nsAt w sq i (j + 1)) (nsAt w sq i j) || ltB (nsAt w sq (j + 1) i) (nsAt w sq j i)))

/-- the malformed classes of the property, for the shares handed to `ExtendedDataSquare::new` -/
def malformedEds (ver : Nat) (shares : List Bytes) : Bool :=
  notSquare shares.length || widthNotPow2 shares.length ||
  shares.length < 2 * 2 || shares.length > (2 * maxOdsWidth ver) * (2 * maxOdsWidth ver) ||
  wrongShareSize shares ||
  (List.range (shares.length + 1)).any (fun w => w * w == shares.length && unsortedEds w shares)

/-- some row or column of the ORIGINAL square of width `k` is not sorted by namespace (first 29 bytes) -/
def unsortedOds (k : Nat) (ods : List Bytes) : Bool :=
  (List.range k).any (fun i => (List.range (k - 1)).any (fun j =>
    ltB ((ods.getD (i * k + j + 1) []).take 29) ((ods.getD (i * k + j) []).take 29) ||
    ltB ((ods.getD ((j + 1) * k + i) []).take 29) ((ods.getD (j * k + i) []).take 29)))

/-- the malformed classes, for the original square handed to `ExtendedDataSquare::from_ods` -/
def malformedOds (ver : Nat) (ods : List Bytes) : Bool :=
  notSquare ods.length || widthNotPow2 ods.length ||
  ods.length < 1 || ods.length > maxOdsWidth ver * maxOdsWidth ver ||
  wrongShareSize ods ||
  (List.range (ods.length + 1)).any (fun k => k * k == ods.length && unsortedOds k ods)

/-- the remaining conditions `ExtendedDataSquare::new` imposes on a square of width `w` (not among the property's
    malformed classes, but needed to say when a square IS accepted): every first-quadrant share starts with a valid
    namespace (C14: version 0 with 18 leading zero id bytes, or version 255 with 27 leading 0xff id bytes) and does not
    use share version 1 under an app version below 3 -/
def sharesSupported (ver w : Nat) (sq : List Bytes) : Bool :=
  (List.range (w / 2)).all (fun r => (List.range (w / 2)).all (fun c =>
    let d := sq.getD (r * w + c) []
    Lumina.Spec.C14.validRaw (d.take 29) && !((d.getD 29 0).toNat / 2 == 1 && ver < 3)))

/-- a VALID extended square: none of the malformed classes, and its first-quadrant shares are supported -/
def validEds (ver : Nat) (shares : List Bytes) : Bool :=
  !malformedEds ver shares &&
  (List.range (shares.length + 1)).all (fun w => w * w != shares.length || sharesSupported ver w shares)

/-- valid inputs are accepted -/
def specAccepts (valid accepted : Bool) : Bool := !valid || accepted

/-- malformed inputs are rejected -/
def specRejects (malformed accepted : Bool) : Bool := !(malformed && accepted)

end Lumina.Spec.C08

/-
  C24 — Syncer fetches missing, insertable heights nearest the head first.

  "Each batch the syncer requests consists only of heights that are neither stored nor pruned, at
  most the batch size, not above the network head, and either directly above the highest synced
  height (when behind the head) or directly below the highest synced range, so that inserting it
  extends stored data."

  Decidable checker over the OBSERVED batch `(start, end)` (`end < start` = no batch), given the
  network head, the synced set (stored ∪ pruned, a canonical value) and the batch size.
  Independent of the model.  Import-free.
-/
import Lumina.Spec.C18

namespace Lumina.Spec.C24
open Lumina.Spec.C17 (R member validR)

/-- highest synced height -/
def top (synced : R) : Option Nat := synced.getLast?.map (·.2)

/-- the syncer is behind the network head (nothing synced, or highest synced height below it) -/
def behind (head : Nat) (synced : R) : Bool :=
  match top synced with
  | none => true
  | some t => decide (t < head)

/-- (a) only heights that are neither stored nor pruned -/
def clauseMissing (synced : R) (b : Nat × Nat) : Bool :=
  synced.all (fun x => decide (x.2 < b.1) || decide (b.2 < x.1))

/-- (b) at most the batch size -/
def clauseSize (limit : Nat) (b : Nat × Nat) : Bool := decide (b.2 + 1 - b.1 ≤ limit)

/-- (c) not above the network head -/
def clauseHead (head : Nat) (b : Nat × Nat) : Bool := decide (b.2 ≤ head)

/-- (d) directly above the highest synced height when behind the head, otherwise directly below
    the highest synced range -/
def clauseAnchor (head : Nat) (synced : R) (b : Nat × Nat) : Bool :=
  if behind head synced then
    match top synced with
    | none => b.1 == 1
    | some t => b.1 == t + 1
  else
    match synced.getLast? with
    | none => false
    | some hr => b.2 + 1 == hr.1

/-- (e) nearest the head first, as many as the batch size allows: the batch is full, or it
    reaches the head (when behind) / the next synced height or height 1 (when filling the gap) -/
def clauseMax (head : Nat) (synced : R) (limit : Nat) (b : Nat × Nat) : Bool :=
  decide (b.2 + 1 - b.1 = limit) ||
  (if behind head synced then b.2 == head else (b.1 == 1 || member synced (b.1 - 1)))

/-- (f) inserting it extends stored data: admitted by the insertion constraints (C18) -/
def clauseInsertable (synced : R) (b : Nat × Nat) : Bool := Lumina.Spec.C18.admitted synced b

/-- no batch is requested only when there is nothing to request -/
def clauseNoBatch (head : Nat) (synced : R) (limit : Nat) : Bool :=
  limit == 0 ||
  (if behind head synced then
     match top synced with
     | none => head == 0
     | some _ => false
   else
     match synced.getLast? with
     | none => false
     | some hr => hr.1 == 1)

/-- names of the clauses that fail (empty list = the batch is what the property allows) -/
def failing (head : Nat) (synced : R) (limit : Nat) (b : Nat × Nat) : List String :=
  if b.2 < b.1 then
    (if clauseNoBatch head synced limit then [] else ["no-batch"])
  else
    (if validR b then [] else ["invalid"]) ++
    (if clauseMissing synced b then [] else ["missing"]) ++
    (if clauseSize limit b then [] else ["size"]) ++
    (if clauseHead head b then [] else ["head"]) ++
    (if clauseAnchor head synced b then [] else ["anchor"]) ++
    (if clauseMax head synced limit b then [] else ["max"]) ++
    (if clauseInsertable synced b then [] else ["insertable"])

def specFetch (head : Nat) (synced : R) (limit : Nat) (b : Nat × Nat) : Bool :=
  (failing head synced limit b).isEmpty

/-- everything except clause (c) -/
def specFetchExceptHead (head : Nat) (synced : R) (limit : Nat) (b : Nat × Nat) : Bool :=
  (failing head synced limit b).all (fun c => c == "head")

/-! ### the same at the level of `Worker::fetch_next_batch` and of the real store -/

/-- a decision observed on the real `Worker`: no request, or a requested batch together with
    whether the real store then accepted the honest headers of that batch -/
inductive WorkerObs where
  | none
  | req (b : Nat × Nat) (inserted : Bool)
  deriving DecidableEq, Repr

/-- clauses failing for a `Worker`-level observation (peers connected, nothing ongoing, every
    stored header inside the sampling window, no slow-sync height).  `synced` is the union of
    `stored` and `pruned`.
    * a requested batch must satisfy (a)–(f) w.r.t. the synced set, must be admitted by the
      insertion constraints of the STORED ranges ("so that inserting it extends stored data" as
      the stores check it), and the real store must have accepted it;
    * no request is allowed only when nothing is missing / batch size 0, or when the height right
      above the gap to fill is pruned rather than stored (requesting below a pruned edge would
      not be insertable). -/
def failingWorker (head : Nat) (stored synced : R) (limit : Nat) : WorkerObs → List String
  | .req b ins =>
    (if b.2 < b.1 then ["empty-request"] else failing head synced limit b) ++
    (if Lumina.Spec.C18.admitted stored b then [] else ["stored-insertable"]) ++
    (if ins then [] else ["store-rejected"])
  | .none =>
    if clauseNoBatch head synced limit then []
    else if !behind head synced && (match synced.getLast? with
        | some hr => !member stored hr.1
        | none => false) then []
    else ["no-batch"]

end Lumina.Spec.C24

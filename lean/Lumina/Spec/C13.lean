/-
  C13 — Merkle, row and share proofs are position-binding and sound.

  The property as decidable checkers over OBSERVED results, stated without the model's functions.
  The merkle tree is defined here a second time, directly from RFC 6962 §2.1 ("k the largest
  power of two smaller than n", MTH, PATH), with explicit fuel; `Props/C13.lean` proves that the
  model (`next_power_of_two()/2`, `hash_leaves_collecting_aunts`, `subtree_root_from_aunts`)
  agrees with it.  The hash is a parameter (`HashFns`); drivers instantiate SHA-256.
-/
import Lumina.Model.Merkle   -- only for the `HashFns` structure (hash parameter)

namespace Lumina.Spec.C13
open Lumina.Util
open Lumina.Model.Merkle (HashFns)

/-- RFC 6962: the largest power of two strictly smaller than `n` (for `n ≥ 2`), by doubling -/
def pow2BelowGo (n : Nat) : Nat → Nat → Nat
  | 0, p => p
  | f + 1, p => if 2 * p < n then pow2BelowGo n f (2 * p) else p

def largestPow2Below (n : Nat) : Nat := pow2BelowGo n n 1

/-- RFC 6962 Merkle Tree Hash, with fuel (`fuel ≥ |l|` suffices) -/
def mth {D : Type} (H : HashFns D) : Nat → List Bytes → D
  | 0, l => (match l with | [x] => H.leaf x | _ => H.empty)
  | f + 1, l =>
    match l with
    | [] => H.empty
    | [x] => H.leaf x
    | _ =>
      let k := largestPow2Below l.length
      H.inner (mth H f (l.take k)) (mth H f (l.drop k))

/-- the root of "the tree with these leaves" -/
def treeRoot {D : Type} (H : HashFns D) (l : List Bytes) : D := mth H l.length l

/-- RFC 6962 Merkle audit path PATH(m, D[n]), listed leaf-level sibling first -/
def path {D : Type} (H : HashFns D) : Nat → Nat → List Bytes → List D
  | 0, _, _ => []
  | f + 1, m, l =>
    if l.length ≤ 1 then []
    else
      let k := largestPow2Below l.length
      if m < k then path H f m (l.take k) ++ [mth H f (l.drop k)]
      else path H f (m - k) (l.drop k) ++ [mth H f (l.take k)]

def auditPath {D : Type} (H : HashFns D) (m : Nat) (l : List Bytes) : List D := path H l.length m l

/-- what is observed of a `MerkleProof` -/
structure ProofObs (D : Type) where
  index : Nat
  total : Nat
  leafHash : D
  aunts : List D

/-- result class of a verification -/
inductive Res where
  | ok
  | err
  | panic
  deriving DecidableEq, Repr

/-- **A merkle inclusion proof is accepted for a leaf only if its index is below its leaf count
    and the leaf is at that index of a tree with that count and root** (and then its inner nodes
    are exactly the audit path, i.e. any altered inner node is rejected).
    `L` is any leaf list; the obligation applies when the root verified against is the root of the
    tree over `L` and the proof's count is `|L|`. -/
def specVerify {D : Type} [DecidableEq D] (H : HashFns D) (L : List Bytes) (p : ProofObs D)
    (leaf : Bytes) (rt : D) (res : Res) : Bool :=
  match res with
  | .ok =>
    !(rt == treeRoot H L && p.total == L.length) ||
      (decide (p.index < p.total) && L[p.index]? == some leaf && p.aunts == auditPath H p.index L)
  | _ => true

/-- acceptance alone already implies `index < total` (whatever the root is) -/
def specVerifyIndex {D : Type} (p : ProofObs D) (res : Res) : Bool :=
  match res with
  | .ok => decide (p.index < p.total)
  | _ => true

/-- observed result of `MerkleProof::new(i, L)` followed by `verify(L[i], root)` -/
inductive NewObs (D : Type) where
  | err
  | ok (p : ProofObs D) (rt : D) (verified : Res)

/-- completeness: a proof built for leaf `i` of `L` exists iff `i < |L|`, is the audit path of the
    tree over `L`, comes with that tree's root, and verifies -/
def specNew {D : Type} [DecidableEq D] (H : HashFns D) (L : List Bytes) (i : Nat) : NewObs D → Bool
  | .err => decide (L.length ≤ i)
  | .ok p rt verified =>
    decide (i < L.length) && rt == treeRoot H L && p.index == i && p.total == L.length &&
      p.leafHash == H.leaf (L.getD i []) && p.aunts == auditPath H i L && verified == .ok

/-- what is observed of a `RowProof` -/
structure RowProofObs (D : Type) where
  rowRoots : List Bytes
  proofs : List (ProofObs D)
  startRow : Nat
  endRow : Nat

def bindsAll {D : Type} [DecidableEq D] (H : HashFns D) (all : List Bytes) :
    List Bytes → List (ProofObs D) → Bool
  | r :: rs, p :: ps =>
    (!(p.total == all.length) ||
      (decide (p.index < p.total) && all[p.index]? == some r && p.aunts == auditPath H p.index all))
      && bindsAll H all rs ps
  | _, _ => true

/-- **Row proofs fail if any proven root or inner node is altered, or the number of roots does
    not match the claimed row span.**  `all` = row roots followed by column roots of a DAH.
    A row proof may be accepted only if `start ≤ end`, the number of roots and of proofs is
    exactly `end - start + 1` (natural-number arithmetic: 65536 for 0..=65535), a root to verify
    against was given, and — when that root is the hash of the DAH — every proven root is the DAH
    root at the proof's index and every inner node is the audit path's.  "Fail" means returning
    an error: aborting (panic) is not an allowed result. -/
def specRowVerify {D : Type} [DecidableEq D] (H : HashFns D) (all : List Bytes) (rp : RowProofObs D)
    (rt : Option D) (res : Res) : Bool :=
  match res with
  | .panic => false
  | .err => true
  | .ok =>
    decide (rp.startRow ≤ rp.endRow) && rp.rowRoots.length == rp.endRow - rp.startRow + 1 &&
    rp.proofs.length == rp.endRow - rp.startRow + 1 && rt.isSome &&
    (!(rt == some (treeRoot H all)) || bindsAll H all rp.rowRoots rp.proofs)

/-- observed result of `dah.row_proof(start..=end)` followed by `verify(dah.hash())` -/
inductive RowBuildObs (D : Type) where
  | err
  | ok (rp : RowProofObs D) (dahHash : D) (verified : Res)

def pathsOk {D : Type} [DecidableEq D] (H : HashFns D) (all : List Bytes) :
    Nat → List Bytes → List (ProofObs D) → Bool
  | i, r :: rs, p :: ps =>
    p.index == i && p.total == all.length && all[i]? == some r && p.leafHash == H.leaf r &&
      p.aunts == auditPath H i all && pathsOk H all (i + 1) rs ps
  | _, [], [] => true
  | _, _, _ => false

/-- **Row proofs built from a DAH verify against its hash**: for `start ≤ end < width` the proof
    exists, proves exactly rows `start..=end` (in order, each with its audit path in the tree over
    rows ++ cols), and verifies against the DAH hash = root of that tree. -/
def specRowBuild {D : Type} [DecidableEq D] (H : HashFns D) (rows cols : List Bytes) (s e : Nat) :
    RowBuildObs D → Bool
  | .err => decide (s ≤ e ∧ rows.length ≤ e)
  | .ok rp h verified =>
    h == treeRoot H (rows ++ cols) && rp.startRow == s && rp.endRow == e &&
    (if s ≤ e then
      decide (e < rows.length) && rp.rowRoots.length == e - s + 1 &&
        pathsOk H (rows ++ cols) s rp.rowRoots rp.proofs && verified == .ok
     else rp.rowRoots.isEmpty && rp.proofs.isEmpty && verified == .err)

/-! ### share proofs -/

/-- what the property needs to see of an NMT range proof -/
structure NProofObs where
  start : Nat
  end_ : Nat
  isAbsence : Bool
  /-- the inner nodes of the range proof, each as its 90 bytes (min namespace ‖ max namespace ‖ hash) -/
  siblings : List Bytes := []

structure ShareProofObs (D : Type) where
  data : List Bytes
  ns : Bytes
  sproofs : List NProofObs
  row : RowProofObs D

/-- the shares of axis `idx` of a row-major square of width `w`: rows are `0..w`, columns `w..2w`
    (the order of the roots in the DAH tree) -/
def axisShares (w : Nat) (sq : List Bytes) (idx : Nat) : List Bytes :=
  if idx < w then (sq.drop (idx * w)).take w
  else (List.range w).map (fun r => sq.getD (r * w + (idx - w)) [])

/-- the namespace under which the share at position `pos` of axis `idx` is committed: its own
    29-byte prefix inside the original-data quadrant, the parity namespace (29 × 0xff) elsewhere -/
def leafNsAt (w idx pos : Nat) (share : Bytes) : Bytes :=
  let rc : Nat × Nat := if idx < w then (idx, pos) else (pos, idx - w)
  if rc.1 < w / 2 ∧ rc.2 < w / 2 then share.take 29 else List.replicate 29 255

def nsAllAt (w idx : Nat) (ns : Bytes) : Nat → List Bytes → Bool
  | _, [] => true
  | pos, s :: rest => leafNsAt w idx pos s == ns && nsAllAt w idx ns (pos + 1) rest

/-- every group of proven shares is the claimed range of the axis its row root commits to, under
    the claimed namespace.  The obligation applies to ranges that lie inside the axis (`end ≤ w`):
    the property lists altered roots, shares and inner nodes, not altered range bounds, and an NMT
    range proof carries no tree size — nmt-rs derives the tree shape from (start, number of
    siblings), so a range claimed beyond the real width can be accepted for shares that sit
    elsewhere (observed: width-2 row, share 1 with the proof of position 1 accepted as range 2..3).
    That weakness of the range-proof format is recorded in design_notes/C13.md and belongs to the
    sample/namespace-data properties (C04/C06), not to this one. -/
def slicesBound {D : Type} (w : Nat) (sq : List Bytes) (ns : Bytes) :
    List Bytes → List NProofObs → List (ProofObs D) → Bool
  | data, np :: nps, p :: ps =>
    let amount := np.end_ - np.start
    (!decide (np.end_ ≤ w) ||
      (data.take amount == ((axisShares w sq p.index).drop np.start).take amount &&
        nsAllAt w p.index ns np.start (data.take amount))) &&
      slicesBound w sq ns (data.drop amount) nps ps
  | _, _, _ => true

/-! #### the inner nodes of a range proof: an independent recomputation of the axis root

The axis trees of a square of width `w` (a power of two) are perfect.  `recompute` walks the perfect
tree over positions `lo .. lo + size` from left to right: a subtree disjoint from the proven range is
taken from the next sibling, a leaf inside the range from the next share (hashed under the claimed
namespace), anything else is split in two halves whose nodes are combined with the NMT node rule
(namespace range = union, except that the parity namespace on the right is ignored). -/

/-- the underlying hash of the NMT -/
abbrev NHash := Bytes → Bytes

structure NNode where
  minNs : Bytes
  maxNs : Bytes
  hash : Bytes
  deriving DecidableEq

def NNode.bytes (n : NNode) : Bytes := n.minNs ++ n.maxNs ++ n.hash

def NNode.ofBytes? (b : Bytes) : Option NNode :=
  if b.length = 90 then some ⟨b.take 29, (b.drop 29).take 29, b.drop 58⟩ else none

def parityNs : Bytes := List.replicate 29 255

/-- leaf node: H(0x00 ‖ ns ‖ share) covering [ns, ns] -/
def nLeaf (h : NHash) (ns share : Bytes) : NNode := ⟨ns, ns, h (0 :: (ns ++ share))⟩

/-- inner node: H(0x01 ‖ left ‖ right); min = smaller min; max ignores a parity right part -/
def nInner (h : NHash) (l r : NNode) : NNode :=
  let minNs := if l.minNs ≤ r.minNs then l.minNs else r.minNs
  let maxNs :=
    if l.minNs = parityNs then parityNs
    else if r.minNs = parityNs then l.maxNs
    else if l.maxNs ≤ r.maxNs then r.maxNs else l.maxNs
  ⟨minNs, maxNs, h (1 :: (l.bytes ++ r.bytes))⟩

/-- root of the perfect subtree over positions `lo .. lo + size`, consuming shares and siblings from
    the left; returns the node and what is left of both -/
def recompute (h : NHash) (ns : Bytes) (start end_ : Nat) :
    Nat → Nat → Nat → List Bytes → List Bytes → Option (NNode × List Bytes × List Bytes)
  | 0, _, _, _, _ => none
  | f + 1, lo, size, shares, sibs =>
    if lo + size ≤ start ∨ end_ ≤ lo then
      match sibs with
      | [] => none
      | s :: rest => (NNode.ofBytes? s).map (fun n => (n, shares, rest))
    else if size = 1 then
      match shares with
      | [] => none
      | x :: rest => some (nLeaf h ns x, rest, sibs)
    else
      match recompute h ns start end_ f lo (size / 2) shares sibs with
      | none => none
      | some (l, shares1, sibs1) =>
        match recompute h ns start end_ f (lo + size / 2) (size / 2) shares1 sibs1 with
        | none => none
        | some (r, shares2, sibs2) => some (nInner h l r, shares2, sibs2)

/-- the shares of the range together with the siblings hash up to exactly `root` (all consumed) -/
def siblingsProve (h : NHash) (w : Nat) (ns : Bytes) (start end_ : Nat) (shares sibs : List Bytes) (root : Bytes) : Bool :=
  match recompute h ns start end_ (w + 1) 0 w shares sibs with
  | some (n, [], []) => n.bytes == root
  | _ => false

/-- every in-width group is proven by its own inner nodes against its own row root: an altered
    inner node cannot be accepted -/
def siblingsBound (h : NHash) (w : Nat) (ns : Bytes) : List Bytes → List NProofObs → List Bytes → Bool
  | data, np :: nps, r :: rs =>
    let amount := np.end_ - np.start
    (!decide (np.end_ ≤ w) || siblingsProve h w ns np.start np.end_ (data.take amount) np.siblings r) &&
      siblingsBound h w ns (data.drop amount) nps rs
  | _, _, _ => true

/-- the share-proof rule WITHOUT the inner-node clause (this is the part the kernel-checked theorems
    of `Props/C13.lean` establish for the model; see `specShareVerify` for the full rule). -/
def specShareVerifyCore {D : Type} [DecidableEq D] (H : HashFns D) (w : Nat) (sq all : List Bytes)
    (sp : ShareProofObs D) (rt : Option D) (res : Res) : Bool :=
  match res with
  | .panic => false
  | .err => true
  | .ok =>
    sp.sproofs.length == sp.row.rowRoots.length &&
    sp.sproofs.all (fun p => !p.isAbsence && decide (p.start < p.end_)) &&
    (sp.sproofs.map (fun p => p.end_ - p.start)).sum == sp.data.length &&
    specRowVerify H all sp.row rt .ok &&
    (!(rt == some (treeRoot H all) && sp.row.proofs.all (fun p => p.total == all.length)) ||
      slicesBound w sq sp.ns sp.data sp.sproofs sp.row.proofs)

/-- **Share proofs fail if any proven root, proven share or inner node is altered or the counts do
    not match.**  `sq` is the extended square (row-major, width `w`), `all` its DAH roots (rows then
    columns), `h` the NMT hash.  A share proof may be accepted only if there is one presence range
    proof with a non-empty range per proven row root, the number of shares is the sum of the range
    lengths, the row proof is acceptable (`specRowVerify`), and — when the root is the DAH hash and the
    merkle proofs are for a tree of `|all|` leaves — each group of shares is exactly the claimed range
    of the proven axis of the square, under the claimed namespace, and the group's inner nodes together
    with its shares recompute the proven row root (so no inner node can have been altered).
    "Fail" means returning an error: a verification that ABORTS (panic) on a decodable proof is a
    failure of the property, not a rejection. -/
def specShareVerify {D : Type} [DecidableEq D] (H : HashFns D) (h : NHash) (w : Nat) (sq all : List Bytes)
    (sp : ShareProofObs D) (rt : Option D) (res : Res) : Bool :=
  specShareVerifyCore H w sq all sp rt res &&
  (match res with
   | .ok =>
     !(rt == some (treeRoot H all) && sp.row.proofs.all (fun p => p.total == all.length)) ||
       siblingsBound h w sp.ns sp.data sp.sproofs sp.row.rowRoots
   | _ => true)

/-- **Share proofs built from a DAH verify against its hash** (honest construction: for each row
    the shares of a column range and their NMT range proof, plus the row proof) -/
def specShareBuildVerifies (verified : Res) : Bool := verified == .ok

/-- the same, and the built proof itself obeys the acceptance rule (its shares are the claimed ranges
    of the square, its inner nodes recompute the row roots): what the driver checks on the
    implementation's honestly built proofs -/
def specShareBuild {D : Type} [DecidableEq D] (H : HashFns D) (h : NHash) (w : Nat) (sq all : List Bytes)
    (built : ShareProofObs D) (dahHash : D) (verified : Res) : Bool :=
  verified == .ok && specShareVerify H h w sq all built (some dahHash) .ok

end Lumina.Spec.C13

/-
  C12 — Blob commitments follow the share-commitment rules.

  ADR-013 stated directly, independently of the model: the subtree width, the merkle-mountain-range
  partition, the NMT subtree roots of a single-namespace leaf set, and the commitment as the RFC-6962
  merkle root (tree of `Spec/C13.lean`) over those roots.  Hashes are parameters; drivers use SHA-256.
-/
import Lumina.Spec.C11     -- the shares of a blob (`expectedShares`), `inScope`
import Lumina.Spec.C13     -- the RFC-6962 tree (`treeRoot`, `largestPow2Below`)

namespace Lumina.Spec.C12
open Lumina.Util
open Lumina.Model.Merkle (HashFns)

/-- the smallest power of two `≥ x`: 1 for `x ≤ 1`, else `2 ^ (⌊log₂ (x - 1)⌋ + 1)` -/
def nextPow2 (x : Nat) : Nat := if x ≤ 1 then 1 else 2 ^ ((x - 1).log2 + 1)

/-- the largest power of two `≤ x` (for `x ≥ 1`): `2 ^ ⌊log₂ x⌋` -/
def prevPow2 (x : Nat) : Nat := 2 ^ x.log2

/-- ⌈a / b⌉ -/
def ceilDiv (a b : Nat) : Nat := if a % b = 0 then a / b else a / b + 1

/-- ⌈√n⌉: the least `s` with `s² ≥ n`, by counting up from `s` (fuel `n + 1` suffices from 0) -/
def ceilSqrtGo (n : Nat) : Nat → Nat → Nat
  | 0, s => s
  | f + 1, s => if n ≤ s * s then s else ceilSqrtGo n f (s + 1)

def ceilSqrt (n : Nat) : Nat := ceilSqrtGo n (n + 1) 0

/-- ADR-013: the subtree width is the smaller of the next power of two of ⌈n / threshold⌉ and the
    minimal square size of the blob, the next power of two of ⌈√n⌉ -/
def subtreeWidth (n threshold : Nat) : Nat := min (nextPow2 (ceilDiv n threshold)) (nextPow2 (ceilSqrt n))

/-- merkle mountain range over `n` leaves with trees of at most `w` leaves: full `w`-trees while
    they fit, then the largest power of two that still fits, and so on -/
def mmrSizes (w : Nat) : Nat → Nat → List Nat
  | 0, _ => []
  | f + 1, n =>
    if n = 0 then []
    else
      let t := if w ≤ n then w else prevPow2 n
      t :: mmrSizes w f (n - t)

def isPow2 (n : Nat) : Bool := n != 0 && nextPow2 n == n

/-- consecutive sizes never increase, and strictly decrease once below `w` -/
def chainOk (w : Nat) : List Nat → Bool
  | a :: b :: r => decide (b ≤ a) && (decide (a = w) || decide (b < a)) && chainOk w (b :: r)
  | _ => true

/-- the rule as a checker over OBSERVED sizes: they add up to `n`, every size is a power of two of
    at most `w`, sizes never increase, and below `w` they strictly decrease -/
def specSizes (n w : Nat) (sizes : List Nat) : Bool :=
  sizes.sum == n && sizes.all (fun s => isPow2 s && decide (s ≤ w)) && chainOk w sizes

def partition {α : Type} : List Nat → List α → List (List α)
  | [], _ => []
  | s :: ss, l => l.take s :: partition ss (l.drop s)

/-- the underlying hash of the NMT -/
abbrev HashFn := Bytes → Bytes

/-- hash part of the NMT root of leaves that all carry namespace `ns` (every node then covers exactly
    [ns, ns]): leaf = H(0x00 ‖ ns ‖ data), node = H(0x01 ‖ ns ‖ ns ‖ left ‖ ns ‖ ns ‖ right), split at
    the largest power of two below the size -/
def nmtHash (h : HashFn) (ns : Bytes) : Nat → List Bytes → Bytes
  | 0, l => (match l with | [x] => h (0 :: (ns ++ x)) | _ => h [])
  | f + 1, l =>
    match l with
    | [] => h []
    | [x] => h (0 :: (ns ++ x))
    | _ =>
      let k := Lumina.Spec.C13.largestPow2Below l.length
      h (1 :: (ns ++ ns ++ nmtHash h ns f (l.take k) ++ (ns ++ ns ++ nmtHash h ns f (l.drop k))))

/-- the 90-byte subtree root: min namespace ‖ max namespace ‖ hash -/
def subtreeRoot (h : HashFn) (ns : Bytes) (leaves : List Bytes) : Bytes :=
  ns ++ ns ++ nmtHash h ns leaves.length leaves

/-- **the commitment**: merkle root over the NMT subtree roots of the shares, partitioned by the
    merkle-mountain-range rule for the subtree width -/
def commitment {D : Type} (H : HashFns D) (h : HashFn) (ns : Bytes) (shares : List Bytes) (threshold : Nat) : D :=
  let w := subtreeWidth shares.length threshold
  Lumina.Spec.C13.treeRoot H ((partition (mmrSizes w shares.length shares.length) shares).map (subtreeRoot h ns))

/-- the commitment of a blob = the commitment of its shares (share format of `Spec/C11.lean`) -/
def blobCommitment {D : Type} (H : HashFns D) (h : HashFn) (ns data : Bytes) (signer : Option Bytes)
    (threshold : Nat) : D :=
  commitment H h ns (Lumina.Spec.C11.expectedShares ns data signer) threshold

inductive VRes where
  | ok | mismatch | err
  deriving DecidableEq, Repr

/-- **blob validation accepts exactly when the stored commitment equals that value** -/
def specValidate {D : Type} [DecidableEq D] (H : HashFns D) (h : HashFn) (ns data : Bytes)
    (signer : Option Bytes) (threshold : Nat) (stored : D) (res : VRes) : Bool :=
  match res with
  | .ok => stored == blobCommitment H h ns data signer threshold
  | .mismatch => stored != blobCommitment H h ns data signer threshold
  | .err => false

end Lumina.Spec.C12

/-
  C39 — Peer tracker counts match peer states.

  The property as decidable checkers over an OBSERVED tracker (the list of tracked peers with
  their connection count, protection tags and flags; the published statistics; the answers of
  `protected_len`).  Nothing here mentions the model.
-/
namespace Lumina.Spec.C39

/-- what can be observed of one tracked peer -/
structure ObsPeer where
  id : Nat
  nConns : Nat
  tags : List Nat
  trusted : Bool
  archival : Bool
  /-- node kind is full or bridge -/
  full : Bool
  deriving DecidableEq, Repr

/-- the published `PeerTrackerInfo` -/
structure ObsInfo where
  connected : Nat
  trusted : Nat
  full : Nat
  archival : Nat
  deriving DecidableEq, Repr

def ObsPeer.connected (p : ObsPeer) : Bool := decide (p.nConns > 0)
def ObsPeer.protectedAny (p : ObsPeer) : Bool := !p.tags.isEmpty

/-- a recount of the tracked peers -/
def recountObs (ps : List ObsPeer) : ObsInfo :=
  { connected := (ps.filter (fun p => p.connected)).length,
    trusted := (ps.filter (fun p => p.connected && p.trusted)).length,
    full := (ps.filter (fun p => p.connected && p.full)).length,
    archival := (ps.filter (fun p => p.connected && p.archival)).length }

/-- "the published peer statistics equal a recount of the tracked peers" -/
def specInfo (ps : List ObsPeer) (info : ObsInfo) : Bool := info == recountObs ps

/-- "the per-tag protected counts equal the number of peers protected with that tag" -/
def specProtected (ps : List ObsPeer) (tag : Nat) (reported : Nat) : Bool :=
  reported == (ps.filter (fun p => p.tags.contains tag)).length

/-- "garbage collection never forgets a connected or protected peer": every peer that was
    connected or protected before the collection is still tracked, unchanged, after it -/
def specGc (before after : List ObsPeer) : Bool :=
  before.all (fun p => if p.connected || p.protectedAny then after.contains p else true)

/-- no peer is tracked twice (the tracker is a map keyed by peer id) -/
def specDistinct (ps : List ObsPeer) : Bool :=
  ps.all (fun p => (ps.filter (fun q => q.id == p.id)).length == 1)

end Lumina.Spec.C39

/-
  C32 — Header-ex requests are retried boundedly and answered once.

  "Every non-head header-ex request is sent at most three times, only to connected peers, with
   its last attempt directed to archival peers. Its caller receives at most one answer (the first
   valid response or the final error) and does receive one whenever peers of the required kind
   are connected or the client stops."

  Decidable checkers over what is OBSERVED in one step of the client (the requests it sent and
  the answers callers received), given what had been observed about each request before.
  Nothing here refers to the model.
-/
import Lumina.Model.Util

namespace Lumina.Spec.C32

/-- what is known about a request before the step -/
structure Known where
  id : Nat
  /-- times it has been sent so far -/
  sends : Nat
  /-- the caller has been answered -/
  answered : Bool
  /-- the caller dropped its receiver -/
  closed : Bool
  /-- it is waiting to be (re)sent -/
  waiting : Bool
  /-- an attempt (the `sends`-th) is outstanding -/
  inflight : Bool
  deriving DecidableEq, Repr

/-- an observed outbound request -/
structure Sent where
  id : Nat
  /-- recipient is connected / archival -/
  toConnected : Bool
  toArchival : Bool
  deriving DecidableEq, Repr

/-- at most three sends, only to connected peers, the third to an archival peer, nothing after the answer -/
def specSends (known : List Known) (sent : List Sent) : Bool :=
  sent.all (fun s =>
    match known.find? (fun k => k.id == s.id) with
    | none => false
    | some k =>
      decide (k.sends + 1 ≤ 3) && s.toConnected && (k.sends + 1 != 3 || s.toArchival) && !k.answered) &&
  (sent.map (·.id)).Nodup

/-- at most one answer per request: none for an already answered one, no two in one step -/
def specAnswers (known : List Known) (answered : List Nat) : Bool :=
  answered.all (fun i =>
    match known.find? (fun k => k.id == i) with
    | none => false
    | some k => !k.answered) &&
  answered.Nodup

/-- progress at a scheduling step: a waiting request whose caller is still there is sent as soon as a
    connected peer of the kind it needs exists (an archival one for the third attempt) -/
def specScheduleProgress (known : List Known) (anyConnected archivalConnected : Bool) (sent : List Sent) : Bool :=
  known.all (fun k =>
    !(k.waiting && !k.closed && !k.answered && (if k.sends + 1 == 3 then archivalConnected else anyConnected)) ||
    sent.any (fun s => s.id == k.id))

/-- progress at stop: every caller that is still there and has not been answered is answered -/
def specStopProgress (known : List Known) (answered : List Nat) : Bool :=
  known.all (fun k => k.answered || k.closed || answered.contains k.id)

/-- what a caller can be told -/
inductive AnsKind where
  | ok | headerNotFound | invalidResponse | invalidRequest | outboundFailure | requestCancelled
  deriving DecidableEq, Repr

/-- **the first valid response or the final error**: when the outcome `res` (a valid response `ok`, or an
    error) arrives for request `id`, the answers given in that step are exactly: `res` itself to that caller if
    it is for the outstanding attempt of a request whose caller is still there and either it is a valid
    response or it was the third attempt; nothing otherwise (stale / duplicate outcomes, retried errors) -/
def specOutcomeAnswers (known : List Known) (id : Nat) (forCurrentAttempt : Bool) (res : AnsKind)
    (answers : List (Nat × AnsKind)) : Bool :=
  answers ==
    (match known.find? (fun k => k.id == id) with
     | some k =>
       if forCurrentAttempt && k.inflight && !k.closed && (res == .ok || k.sends == 3) then [(id, res)] else []
     | none => [])

/-- a new request is answered at once only when it cannot be served: after stop (cancelled) or invalid -/
def specRequestAnswers (newId : Nat) (stopped valid : Bool) (answers : List (Nat × AnsKind)) : Bool :=
  answers ==
    (if stopped then [(newId, .requestCancelled)] else if !valid then [(newId, .invalidRequest)] else [])

/-- at stop callers are told the request was cancelled -/
def specStopAnswers (answers : List (Nat × AnsKind)) : Bool :=
  answers.all (fun a => a.2 == .requestCancelled)

/-- scheduling, a caller going away: nobody is answered -/
def specQuietStep (answers : List (Nat × AnsKind)) : Bool := answers.isEmpty

end Lumina.Spec.C32

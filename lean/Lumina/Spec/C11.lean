/-
  C11 — Blob share encoding round-trips and is sized correctly.

  The property as decidable checkers over observed results, independent of the model.  The share
  format is written here directly with the property's own numbers: 512-byte shares; namespace (29) ‖
  info byte ‖ [sequence length (4, big endian) ‖ signer (20, share version 1 only)] in the first
  share; 478 payload bytes in the first share (458 with a signer), 482 in every continuation share;
  zero padding.
-/
import Lumina.Spec.C14    -- `validRaw`, `maxPrimaryReserved`, `minSecondaryReserved` (import-free)

namespace Lumina.Spec.C11
open Lumina.Util

/-- payload capacity of the first share -/
def firstCap (hasSigner : Bool) : Nat := if hasSigner then 458 else 478

/-- **the number of shares of a blob of `len` bytes** -/
def sharesNeeded (len : Nat) (hasSigner : Bool) : Nat :=
  if len ≤ firstCap hasSigner then 1 else 1 + (len - firstCap hasSigner + 481) / 482

/-- 482-byte chunks (fuel ≥ number of chunks) -/
def chunks482 : Nat → Bytes → List Bytes
  | 0, _ => []
  | f + 1, d => if d.isEmpty then [] else d.take 482 :: chunks482 f (d.drop 482)

def padTo512 (b : Bytes) : Bytes := b ++ List.replicate (512 - b.length) 0

/-- 4-byte big-endian -/
def be32 (n : Nat) : Bytes :=
  [UInt8.ofNat (n / 16777216 % 256), UInt8.ofNat (n / 65536 % 256), UInt8.ofNat (n / 256 % 256), UInt8.ofNat (n % 256)]

/-- the shares of a blob, by the share format -/
def expectedShares (ns data : Bytes) (signer : Option Bytes) : List Bytes :=
  let ver : Nat := if signer.isSome then 1 else 0
  let hdr := ns ++ [UInt8.ofNat (2 * ver + 1)] ++ be32 data.length ++ signer.getD []
  let cap := firstCap signer.isSome
  padTo512 (hdr ++ data.take cap) ::
    (chunks482 data.length (data.drop cap)).map (fun c => padTo512 (ns ++ [UInt8.ofNat (2 * ver)] ++ c))

def isReserved (ns : Bytes) : Bool :=
  decide (ns ≤ Lumina.Spec.C14.maxPrimaryReserved) || decide (Lumina.Spec.C14.minSecondaryReserved ≤ ns)

/-- the blobs the property speaks about: non-empty data (shorter than 2^32), valid non-reserved
    namespace, share version 0 without signer or version 1 (app version ≥ 3) with a 20-byte signer -/
def inScope (ns data : Bytes) (signer : Option Bytes) (appVersion : Nat) : Bool :=
  !data.isEmpty && decide (data.length < 2 ^ 32) && Lumina.Spec.C14.validRaw ns && !isReserved ns &&
  (match signer with
   | none => true
   | some sg => sg.length == 20 && decide (3 ≤ appVersion))

/-- a blob as observed: namespace, data, signer -/
abbrev BlobObs := Bytes × Bytes × Option Bytes

/-- observed: the shares produced, the reported share count, the blob reconstructed from the shares
    (namespace, data, signer) and its share version -/
inductive SplitObs where
  | err
  | ok (shares : List Bytes) (sharesLen : Nat) (back : Option BlobObs) (backVersion : Option Nat)

/-- **splitting into shares and reconstructing yields the identical blob, and the reported share
    count equals the number of shares produced** (which is `sharesNeeded`, in the stated format) -/
def specBlob (ns data : Bytes) (signer : Option Bytes) : SplitObs → Bool
  | .err => false
  | .ok shares sharesLen back backVersion =>
    shares == expectedShares ns data signer && shares.length == sharesNeeded data.length signer.isSome &&
    sharesLen == shares.length && back == some (ns, data, signer) &&
    backVersion == some (if signer.isSome then 1 else 0)

/-- **reconstructing all blobs from their concatenated shares interleaved with reserved-namespace
    shares returns them in order** -/
def specReconstructAll (expect : List BlobObs) (obs : Option (List BlobObs)) : Bool :=
  obs == some expect

end Lumina.Spec.C11

/-
  C38 — The syncer keeps the store on the network's chain and converges.

  "Running against peers that serve an honest chain plus arbitrary invalid, forked, truncated or
  failing responses, the node's store only ever contains headers of the honest chain, and once
  honest peers answer, every height in the sampling window up to the network head is eventually
  stored."

  Decidable checkers over what is OBSERVED of the node after an event:
    * `specSafety`: the list of stored heights whose stored header is not the honest chain's
      header of that height (computed by the observer by comparing hashes) is empty;
    * `specConverged`: every height of the sampling window (`firstInWindow ..`) up to the
      network head is stored.
  Independent of the model.  Import-free.
-/
namespace Lumina.Spec.C38

abbrev R := List (Nat × Nat)

def member (rs : R) (h : Nat) : Bool := rs.any (fun r => decide (r.1 ≤ h) && decide (h ≤ r.2))

/-- the store only contains headers of the honest chain -/
def specSafety (offChain : List Nat) : Bool := offChain.isEmpty

/-- every height in the sampling window up to the network head is stored -/
def specConverged (stored : R) (firstInWindow head : Nat) : Bool :=
  (List.range' (max 1 firstInWindow) (head + 1 - max 1 firstInWindow)).all (member stored)

end Lumina.Spec.C38

/-
  C06 — Namespace data is sound and complete.

  Decidable checkers, independent of the model.  The square is the plain row-major list of share byte strings;
  a share's namespace is its first 29 bytes in the original-data quadrant and the parity namespace (29 × 0xff)
  elsewhere; "the root range of a row" is [smallest namespace, largest non-parity namespace] (parity only when the
  whole row is parity), as the namespaced merkle tree with `ignore_max_ns` defines it.
-/
import Lumina.Model.Util

namespace Lumina.Spec.C06
open Lumina.Util

def parityNs : Bytes := List.replicate 29 255

def ltBytes : Bytes → Bytes → Bool
  | [], [] => false
  | [], _ :: _ => true
  | _ :: _, [] => false
  | a :: as, b :: bs => if a < b then true else if a = b then ltBytes as bs else false

def leBytes (a b : Bytes) : Bool := !ltBytes b a

/-- namespace of the share at `(row, col)` -/
def nsAt (w row col : Nat) (data : Bytes) : Bytes :=
  if row < w / 2 ∧ col < w / 2 then data.take 29 else parityNs

/-- `(namespace, bytes)` of the shares of row `row` -/
def rowShares (w : Nat) (sq : List Bytes) (row : Nat) : List (Bytes × Bytes) :=
  (List.range w).filterMap (fun c => (sq[row * w + c]?).map (fun d => (nsAt w row c d, d)))

/-- does the root range of the row cover `ns`?  The range is [smallest namespace, largest non-parity namespace]
    (a row of parity shares only has the range [parity, parity]): some share's namespace is ≤ `ns`, and either the
    whole row is parity or some non-parity share's namespace is ≥ `ns`. -/
def rowCovers (w : Nat) (sq : List Bytes) (row : Nat) (ns : Bytes) : Bool :=
  let nss := (rowShares w sq row).map Prod.fst
  nss.any (fun n => leBytes n ns) &&
    (nss.all (fun n => n == parityNs) || nss.any (fun n => n != parityNs && leBytes ns n))

/-- brute-force scan: for every covered row, in row order, exactly the shares of the namespace in that row -/
def expected (w : Nat) (sq : List Bytes) (ns : Bytes) : List (Nat × List Bytes) :=
  (List.range w).filterMap (fun r =>
    if rowCovers w sq r ns then some (r, ((rowShares w sq r).filter (fun p => p.1 == ns)).map Prod.snd) else none)

/-- soundness + completeness of what is ACCEPTED: the accepted rows are, in order, exactly the expected ones -/
def specVerify (w : Nat) (sq : List Bytes) (ns : Bytes) (rows : List (List Bytes)) (accepted : Bool) : Bool :=
  !accepted || rows == (expected w sq ns).map Prod.snd

/-- the data the square itself produces verifies and equals the brute-force scan -/
def specHonest (w : Nat) (sq : List Bytes) (ns : Bytes) (produced : List (Nat × List Bytes)) (accepted : Bool) : Bool :=
  accepted && produced == expected w sq ns

/-- single row: accepted only if the shares are exactly the namespace's shares of that row when the row's root
    range covers the namespace, and nothing otherwise -/
def specRow (w : Nat) (sq : List Bytes) (ns : Bytes) (row : Nat) (shares : List Bytes) (accepted : Bool) : Bool :=
  !accepted || (row < w &&
    (if rowCovers w sq row ns then shares == ((rowShares w sq row).filter (fun p => p.1 == ns)).map Prod.snd
     else shares == []))

end Lumina.Spec.C06

/-
  C23 — Redb schema migration preserves stored ranges.

  "Opening a database written with an older schema version migrates it so that the stored and
   sampled ranges it held are reported unchanged, and a database with a newer schema version
   is refused without modification."

  Stated independently of the model's functions, as a decidable checker over what was
  OBSERVED when a database snapshot `before` was opened: did the open succeed, what does the
  database contain afterwards, what do `get_stored_header_ranges` / `get_sampled_ranges`
  report.  Only the *data type* of a database snapshot (`Model.RedbSchema.Db`, plain data) is
  shared with the model.  The schema numbers (3) and the on-disk key names are the ones the
  old databases in the wild were written with; they are quoted literally here and connected
  to the constants generated from the current source by `Props.C23.consts_eq`.
-/
import Lumina.Model.RedbSchema

namespace Lumina.Spec.C23
open Lumina.Model.RedbSchema (Db Raw)

/-- a legal `BlockRanges` vector: every range has `1 ≤ start ≤ end`, and every range starts
    strictly after the end of the one before it -/
def legal : Raw → Bool
  | [] => true
  | [r] => decide (1 ≤ r.1) && decide (r.1 ≤ r.2)
  | r :: s :: rest => decide (1 ≤ r.1) && decide (r.1 ≤ r.2) && decide (r.2 < s.1) && legal (s :: rest)

/-- joining ranges that touch (`[a..b], [b+1..c]` is the same set of heights as `[a..c]`) -/
def mergeFrom (cur : Nat × Nat) : Raw → Raw
  | [] => [cur]
  | r :: rest => if cur.2 + 1 = r.1 then mergeFrom (cur.1, r.2) rest else cur :: mergeFrom r rest

/-- the canonical form of a legal vector: touching ranges joined -/
def merge : Raw → Raw
  | [] => []
  | r :: rest => mergeFrom r rest

/-- what a reader gets out of a stored vector: the set of heights it denotes, in canonical form,
    if the vector is legal; otherwise an error (`none`) -/
def reading (rs : Raw) : Option Raw := if legal rs then some (merge rs) else none

/-- the vector stored under `key` in `STORE.RANGES` (missing table / missing key = empty) -/
def underKey (db : Db) (key : String) : Raw :=
  match db.ranges with
  | none => []
  | some t =>
    match t.find? (fun e => e.1 = key) with
    | some e => e.2
    | none => []

/-- **Where each schema version keeps the stored (header) ranges.**
    v1: the values of the `u64 ↦ (u64,u64)` table `STORE.HEIGHT_RANGES`, in key order;
    v2, v3: under `KEY.HEADER_RANGES` of `STORE.RANGES`. -/
def heldStored (db : Db) : Option Raw :=
  match db.version with
  | some 1 => reading ((db.heightRanges.getD []).map (fun e => e.2))
  | some 2 => reading (underKey db "KEY.HEADER_RANGES")
  | some 3 => reading (underKey db "KEY.HEADER_RANGES")
  | _ => none

/-- **Where each schema version keeps the sampled ranges.**
    v1, v2: under `KEY.ACCEPTED_SAMPING_RANGES` (sic) of `STORE.RANGES` (absent in a genuine v1
    database, i.e. empty); v3: under `KEY.SAMPLED_RANGES`. -/
def heldSampled (db : Db) : Option Raw :=
  match db.version with
  | some 1 => reading (underKey db "KEY.ACCEPTED_SAMPING_RANGES")
  | some 2 => reading (underKey db "KEY.ACCEPTED_SAMPING_RANGES")
  | some 3 => reading (underKey db "KEY.SAMPLED_RANGES")
  | _ => none

/-- what was observed when `before` was opened -/
structure Obs where
  /-- `RedbStore::new` returned `Ok` -/
  ok : Bool
  /-- raw content of the database afterwards -/
  after : Db
  /-- `get_stored_header_ranges()` of the opened store (`none` = error); meaningful iff `ok` -/
  stored : Option Raw
  /-- `get_sampled_ranges()` of the opened store (`none` = error); meaningful iff `ok` -/
  sampled : Option Raw
  deriving DecidableEq, Repr

/-- the property for a database carrying a schema version `v ≥ 1`:
    * newer (`v > 3`): refused, and not modified;
    * older or current (`1 ≤ v ≤ 3`): if the open succeeds the database is at version 3 and the
      stored and sampled ranges it held are reported unchanged (a vector that was unreadable
      before stays unreadable); the open may fail only if the database held an unreadable
      vector, and then the database is not modified. -/
def specOpen (before : Db) (o : Obs) : Bool :=
  match before.version with
  | none => o.ok && o.after.version == some 3          -- fresh database: initialised at v3
  | some 0 => true                                      -- not a schema version that ever existed
  | some v =>
    if v > 3 then !o.ok && o.after == before
    else if o.ok then
      o.after.version == some 3 && o.stored == heldStored before && o.sampled == heldSampled before
    else
      o.after == before && (heldStored before == none || heldSampled before == none)

/-- opening twice: the second open of a successfully opened database succeeds and changes nothing -/
def specReopen (after1 : Db) (ok2 : Bool) (after2 : Db) : Bool :=
  ok2 && after2 == after1

end Lumina.Spec.C23

/-
  C09 — An EDS fetched over shrex matches the header's DAH.

  "The shrex EDS response decoder accepts a payload only if it is the original data square whose extension
  reproduces the header's DAH exactly, and returns that square; any other payload is rejected without
  panicking."

  The property as decidable checkers over OBSERVED results.  Nothing of the decoder model
  (`Lumina.Model.ShrexEds`, `Lumina.Model.EdsCode`) is mentioned: the square is a plain row-major list of
  share byte strings; its commitment is defined here directly from the NMT hashing primitives
  (`hashLeaf`, `computeRoot` of the shared nmt-rs model): the root of row/column `i` is the NMT root over its
  shares, a share outside the first quadrant being filed under the parity namespace (29 × 0xff), one inside
  under its own first 29 bytes.
-/
import Lumina.Model.Nmt

namespace Lumina.Spec.C09
open Lumina.Util Lumina.Model.Nmt

/-- namespace under which the share at `(r, c)` of a square of width `w` is committed -/
def leafNs (w r c : Nat) (share : Bytes) : Bytes :=
  if r < w / 2 ∧ c < w / 2 then share.take 29 else List.replicate 29 255

/-- NMT root (`ignore_max_ns = true`) of row `i` of the row-major square `sq` of width `w` -/
def rowRoot (H : HashFn) (w : Nat) (sq : List Bytes) (i : Nat) : Option NsHash :=
  match computeRoot H true ((List.range w).map (fun c => hashLeaf H (leafNs w i c (sq.getD (i * w + c) [])) (sq.getD (i * w + c) []))) with
  | .ok r => some r
  | .error _ => none

def colRoot (H : HashFn) (w : Nat) (sq : List Bytes) (i : Nat) : Option NsHash :=
  match computeRoot H true ((List.range w).map (fun r => hashLeaf H (leafNs w r i (sq.getD (r * w + i) [])) (sq.getD (r * w + i) []))) with
  | .ok r => some r
  | .error _ => none

/-- "the square reproduces the DAH exactly": `w` row roots and `w` column roots, the `i`-th being the root of
    row / column `i` of the square -/
def commits (H : HashFn) (w : Nat) (sq : List Bytes) (rows cols : List NsHash) : Bool :=
  sq.length == w * w && rows.length == w && cols.length == w &&
  (List.range w).all (fun i => rowRoot H w sq i == rows[i]? && colRoot H w sq i == cols[i]?)

/-- first quadrant of a row-major square of width `w`, row-major -/
def quadrant0 (w : Nat) (sq : List Bytes) : List Bytes :=
  (List.range (w / 2)).flatMap (fun r => (List.range (w / 2)).map (fun c => sq.getD (r * w + c) []))

/-- observed outcome of one decode -/
inductive Obs where
  /-- accepted; the returned square: its width and its shares row-major -/
  | ok (w : Nat) (sq : List Bytes)
  /-- rejected with an error -/
  | err
  /-- the decoder panicked -/
  | panic
  deriving DecidableEq, Repr

/-- soundness + no panic.  `ext` is the extension of the payload's shares computed by the reference codec
    (`none` when the payload is not a square of at most 128 × 128 whole shares, where there is no extension). -/
def specDecode (H : HashFn) (raw : Bytes) (rows cols : List NsHash) (ext : Option (List Bytes)) (o : Obs) : Bool :=
  match o with
  | .panic => false
  | .err => true
  | .ok w sq =>
    -- the payload is exactly the first quadrant of the returned square …
    (quadrant0 w sq).flatten == raw && (quadrant0 w sq).all (fun s => s.length == 512) && !raw.isEmpty &&
    -- … the returned square is the extension of the payload …
    ext == some sq &&
    -- … and it reproduces the header's DAH exactly
    commits H w sq rows cols

/-- completeness: the honest payload of a valid square, checked against that square's DAH, is accepted -/
def specHonest (o : Obs) : Bool :=
  match o with
  | .ok _ _ => true
  | _ => false

end Lumina.Spec.C09

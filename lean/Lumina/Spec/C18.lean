/-
  C18 — Store insertion constraints admit exactly the legal ranges.

  "A header range is admitted for insertion exactly when it is a valid range that shares no
  height with the stored ranges and either nothing is stored, it lies entirely above the highest
  stored height, or it touches a stored range; the two returned flags say exactly whether the
  height just below and the height just above the range are stored."

  Decidable checker over the OBSERVED result, independent of the model.  Import-free.
-/
import Lumina.Spec.C17

namespace Lumina.Spec.C18
open Lumina.Spec.C17 (R member validR inR)

/-- observed result of `check_insertion_constraints` -/
inductive Obs where
  | ok (prev next : Bool)
  | errInvalid
  | errOverlap
  | errNoAdjacent
  | other
  deriving DecidableEq, Repr

/-- the candidate shares a height with a stored range -/
def sharesHeight (rs : R) (r : Nat × Nat) : Bool :=
  rs.any (fun x => decide (x.1 ≤ r.2) && decide (r.1 ≤ x.2))

/-- nothing is stored -/
def nothingStored (rs : R) : Bool := rs.isEmpty

/-- the candidate lies entirely above the highest stored height -/
def aboveHighest (rs : R) (r : Nat × Nat) : Bool := rs.all (fun x => decide (x.2 < r.1))

/-- the height just below / just above the candidate is stored -/
def belowStored (rs : R) (r : Nat × Nat) : Bool := member rs (r.1 - 1)
def aboveStored (rs : R) (r : Nat × Nat) : Bool := member rs (r.2 + 1)

/-- the candidate touches a stored range -/
def touchesStored (rs : R) (r : Nat × Nat) : Bool := belowStored rs r || aboveStored rs r

def placementOk (rs : R) (r : Nat × Nat) : Bool :=
  nothingStored rs || aboveHighest rs r || touchesStored rs r

/-- admitted exactly when … -/
def admitted (rs : R) (r : Nat × Nat) : Bool :=
  validR r && !sharesHeight rs r && placementOk rs r

def specCheck (rs : R) (r : Nat × Nat) : Obs → Bool
  | .ok p n => admitted rs r && (p == belowStored rs r) && (n == aboveStored rs r)
  | .errInvalid => !validR r
  | .errOverlap => validR r && sharesHeight rs r
  | .errNoAdjacent => validR r && !sharesHeight rs r && !placementOk rs r
  | .other => false

end Lumina.Spec.C18

/-
  C43 — Transaction submission keeps account sequences consistent.

  "For any interleaving of concurrent submissions from one client and any node answers (success,
   sequence mismatch with the expected value, mempool-cache hit, rejection, eviction), every
   broadcast transaction is signed with the sequence the client believed current, sequences advance
   by one per accepted broadcast, a mismatch resynchronises to the node's expected value, and an
   evicted transaction is re-broadcast byte-identically, never re-signed."

  The property as a LEDGER that replays what an observer of the client sees (sign calls, pending
  node requests, node answers, results) — one believed sequence and four rules — independent of the
  client model (`Lumina/Model/TxSeq.lean`: phases, OnceCells, mutex queue, timers).
-/
import Lumina.Model.Util

namespace Lumina.Spec.C43

/-- an observed transaction: who signed it, the sequence / gas / fee inside it, and the identity
    of its bytes (`id`: equal ids = byte-identical) -/
structure OTx where
  sub : Nat
  seq : Nat
  gas : Nat
  fee : Nat
  id : Nat
  deriving DecidableEq, Repr

inductive OEv where
  /-- the signer was called -/
  | sign (tx : OTx)
  /-- a submission returned; `rej = some c` for `TxRejected` with execution code `c` -/
  | fin (sub : Nat) (rej : Option Nat)
  deriving Repr

/-- the request a submission has pending at the node -/
inductive OPend where
  | L | G | P
  | E (id : Nat)      -- gas estimation of transaction `id`
  | B (id : Nat)      -- broadcast of transaction `id`
  | T (id : Nat)      -- status query for transaction `id`
  | wait | fin
  deriving DecidableEq, Repr

/-- the answers that matter to the ledger -/
inductive OAns where
  | acctSeq (n : Nat)     -- the account query answered with sequence n
  | accepted              -- broadcast answered with success or "already in mempool cache"
  | mismatch (n : Nat)    -- "account sequence mismatch, expected n"
  | evicted               -- status EVICTED or UNKNOWN
  | other
  deriving DecidableEq, Repr

structure OLine where
  events : List OEv
  states : List (Nat × OPend)
  deriving Repr

structure Ledger where
  /-- the sequence the client must believe current; `none` before the account is known -/
  believed : Option Nat := none
  lastSigned : List (Nat × OTx) := []
  accepted : List (Nat × OTx) := []
  prev : List (Nat × OPend) := []
  deriving Repr

def put {α} (l : List (Nat × α)) (i : Nat) (a : α) : List (Nat × α) :=
  (i, a) :: l.filter (fun p => p.1 != i)

/-- InvalidSequence = 3, WrongSequence = 32 -/
def wrongSequence (c : Nat) : Bool := c == 3 || c == 32

/-- rule "advance by one per accepted broadcast", "a mismatch resynchronises to the node's value" -/
def direct (l : Ledger) (sub : Nat) (a : OAns) : Ledger :=
  match l.prev.lookup sub, a with
  | some .G, .acctSeq n => { l with believed := some n }
  | some (.B _), .accepted =>
    if (l.accepted.lookup sub).isSome then l   -- a re-broadcast by the confirmation loop
    else match l.lastSigned.lookup sub with
      | some tx => { l with accepted := put l.accepted sub tx, believed := l.believed.map (· + 1) }
      | none => l
  | some (.B _), .mismatch n | some (.E _), .mismatch n =>
    if (l.accepted.lookup sub).isSome then l else { l with believed := some n }
  | _, _ => l

/-- rules "signed with the sequence believed current", "never re-signed"; a rejection that is
    not about the sequence rolls the believed sequence back to the rejected transaction's -/
def event (l : Ledger) : OEv → Except String Ledger
  | .sign tx =>
    if (l.accepted.lookup tx.sub).isSome then .error "C43/resigned-after-acceptance"
    else if l.believed != some tx.seq then .error "C43/signed-with-other-than-believed-sequence"
    else .ok { l with lastSigned := put l.lastSigned tx.sub tx }
  | .fin sub (some c) =>
    match l.accepted.lookup sub with
    | some tx => .ok (if wrongSequence c then l else { l with believed := some tx.seq })
    | none => .ok l
  | .fin _ none => .ok l

def events (l : Ledger) : List OEv → Except String Ledger
  | [] => .ok l
  | e :: rest =>
    match event l e with
    | .error s => .error s
    | .ok l' => events l' rest

/-- what is pending at the node must be the transaction just signed (inside the critical
    section) or, after acceptance, the byte-identical accepted transaction -/
def pendOK (l : Ledger) (sub : Nat) : OPend → Except String Unit
  | .B id =>
    match l.accepted.lookup sub with
    | some tx => if tx.id == id then .ok () else .error "C43/rebroadcast-not-identical"
    | none =>
      match l.lastSigned.lookup sub with
      | some tx => if tx.id == id then .ok () else .error "C43/broadcast-not-last-signed"
      | none => .error "C43/broadcast-not-last-signed"
  | .E id =>
    match l.lastSigned.lookup sub with
    | some tx => if tx.id == id then .ok () else .error "C43/broadcast-not-last-signed"
    | none => .error "C43/broadcast-not-last-signed"
  | .T id =>
    match l.accepted.lookup sub with
    | some tx => if tx.id == id then .ok () else .error "C43/status-of-other-transaction"
    | none => .error "C43/status-of-other-transaction"
  | _ => .ok ()

def pends (l : Ledger) : List (Nat × OPend) → Except String Unit
  | [] => .ok ()
  | (i, p) :: rest =>
    match pendOK l i p with
    | .error s => .error s
    | .ok () => pends l rest

/-- one observed step: `answered = some (sub, a)` if the input was a node answer -/
def ledgerStep (l : Ledger) (answered : Option (Nat × OAns)) (line : OLine) : Except String Ledger :=
  let l1 := match answered with
    | some (i, a) => direct l i a
    | none => l
  match events l1 line.events with
  | .error s => .error s
  | .ok l2 =>
    match pends l2 line.states with
    | .error s => .error s
    | .ok () =>
      -- "an evicted transaction is re-broadcast": the very next request is that broadcast
      let evictedOK : Bool := match answered with
        | some (i, .evicted) =>
          (match l.prev.lookup i, l2.accepted.lookup i with
           | some (.T _), some tx => line.states.lookup i == some (.B tx.id)
           | _, _ => true)
        | _ => true
      if evictedOK then .ok { l2 with prev := line.states } else .error "C43/evicted-not-rebroadcast"

end Lumina.Spec.C43

/-
  C16 — Decoding network input never panics.

  The property, as a decidable check on what a decoder was OBSERVED to do with one input: whatever the
  input, the observed outcome is a value or an error, never a panic.  The outcome is given by its
  canonical class word (`ok…`, `err…`, `nopanic`, or `panic` when the call unwound).  Independent of the
  model: nothing here refers to any decoder.
-/
namespace Lumina.Spec.C16

/-- observed outcome classes -/
inductive Obs where
  | value
  | error
  | panic
  deriving DecidableEq, Repr

/-- the property for one observation -/
def specOK (o : Obs) : Bool := o != Obs.panic

/-- canonical result line → observation (`none`: not a result line of this property) -/
def parseObs (ws : List String) : Option Obs :=
  match ws.head? with
  | none => none
  | some w =>
    if w == "panic" then some .panic
    else if w == "ok" || w == "nopanic" || w == "guards-ok" then some .value
    else if w == "err" || w == "err-decode" || w == "err-verify" then some .error
    else none

end Lumina.Spec.C16

/-
  C17 — BlockRanges behaves as a set of heights.

  The property stated independently of the model, as decidable checkers over OBSERVED results.
  A value is a list of inclusive ranges `(start, end)`; the set it denotes is `member`; the
  representation the property demands is `canonical` (sorted, disjoint, non-adjacent, no height
  0, inside u64).  "Returns what the same operation on that set returns" is checked
  extensionally: membership of the observed result is compared with the set-theoretic
  definition on every *critical* height (every endpoint of every range involved, every
  argument, 0, 1, 2^64-1, each with its two neighbours).  Membership functions of range lists
  are constant between critical heights, so agreement there is agreement everywhere; the
  theorems in `Props/C17.lean` prove the unbounded `∀ h` statements for the model.

  Import-free.
-/
namespace Lumina.Spec.C17

abbrev R := List (Nat × Nat)

/-- 2^64 - 1 -/
def U64MAX : Nat := 18446744073709551615

def inR (r : Nat × Nat) (h : Nat) : Bool := decide (r.1 ≤ h) && decide (h ≤ r.2)

/-- the set denoted by a list of ranges -/
def member (rs : R) (h : Nat) : Bool := rs.any (fun r => inR r h)

/-- a valid block range: no height 0, not reversed -/
def validR (r : Nat × Nat) : Bool := decide (1 ≤ r.1) && decide (r.1 ≤ r.2)

/-- sorted, disjoint, non-adjacent -/
def gaps : R → Bool
  | [] => true
  | [_] => true
  | a :: b :: rest => decide (a.2 + 1 < b.1) && gaps (b :: rest)

/-- the representation demanded by the property -/
def canonical (rs : R) : Bool :=
  gaps rs && rs.all (fun r => validR r && decide (r.2 ≤ U64MAX))

/-- number of heights of a canonical value -/
def card (rs : R) : Nat := (rs.map (fun r => r.2 + 1 - r.1)).sum

/-- lowest / highest member of a canonical value -/
def lowest (rs : R) : Option Nat := rs.head?.map (·.1)
def highest (rs : R) : Option Nat := rs.getLast?.map (·.2)

/-- critical heights of the values and arguments involved in one case -/
def window (vals : List R) (pts : List Nat) : List Nat :=
  let base := [0, 1, U64MAX] ++ pts ++ vals.flatMap (fun rs => rs.flatMap (fun r => [r.1, r.2]))
  base.flatMap (fun p => [p - 1, p, p + 1])

def sameOn (w : List Nat) (f g : Nat → Bool) : Bool := w.all (fun h => f h == g h)

/-- observed result of an operation that yields a ranges value -/
inductive Obs where
  | ok (rs : R)
  | errInvalid (r : Nat × Nat)
  | errUnsorted
  | panic
  deriving DecidableEq, Repr

/-- `out` is canonical and denotes exactly the set `f` -/
def denotes (out : R) (vals : List R) (pts : List Nat) (f : Nat → Bool) : Bool :=
  canonical out && sameOn (window (out :: vals) pts) (member out) f

/-- construction from a list of ranges: accepted exactly when every range is valid and they are
    strictly increasing and disjoint; the value denotes the union and is canonical -/
def acceptableVec : R → Bool
  | [] => true
  | [a] => validR a
  | a :: b :: rest => validR a && decide (a.2 < b.1) && acceptableVec (b :: rest)

def firstInvalid (v : R) : Option (Nat × Nat) := v.find? (fun r => !validR r)

def specFromVec (v : R) : Obs → Bool
  | .ok out => acceptableVec v && denotes out [v] [] (member v)
  | .errInvalid r => !acceptableVec v && firstInvalid v == some r
  | .errUnsorted => !acceptableVec v
  | .panic => false

/-- insert: fails only for an invalid range; otherwise set union with the range -/
def specInsert (rs : R) (r : Nat × Nat) : Obs → Bool
  | .ok out => validR r && denotes out [rs] [r.1, r.2] (fun h => member rs h || inR r h)
  | .errInvalid x => !validR r && x == r
  | _ => false

/-- remove: fails only for an invalid range; otherwise set difference with the range -/
def specRemove (rs : R) (r : Nat × Nat) : Obs → Bool
  | .ok out => validR r && denotes out [rs] [r.1, r.2] (fun h => member rs h && !inR r h)
  | .errInvalid x => !validR r && x == r
  | _ => false

def specUnion (a b : R) : Obs → Bool
  | .ok out => denotes out [a, b] [] (fun h => member a h || member b h)
  | _ => false

def specDiff (a b : R) : Obs → Bool
  | .ok out => denotes out [a, b] [] (fun h => member a h && !member b h)
  | _ => false

def specInter (a b : R) : Obs → Bool
  | .ok out => denotes out [a, b] [] (fun h => member a h && member b h)
  | _ => false

/-- complement with respect to the universe of heights `[1, 2^64-1]` -/
def specCompl (a : R) : Obs → Bool
  | .ok out => denotes out [a] [] (fun h => decide (1 ≤ h) && decide (h ≤ U64MAX) && !member a h)
  | _ => false

def specContains (rs : R) (h : Nat) (o : Bool) : Bool := o == member rs h

def specLen (rs : R) (o : Option Nat) : Bool := o == some (card rs)

def specIsEmpty (rs : R) (o : Bool) : Bool := o == (card rs == 0)

/-- head = greatest member -/
def specHead (rs : R) (o : Option Nat) : Bool :=
  match o with
  | none => card rs == 0
  | some x => member rs x && rs.all (fun r => decide (r.2 ≤ x))

/-- tail = least member -/
def specTail (rs : R) (o : Option Nat) : Bool :=
  match o with
  | none => card rs == 0
  | some x => member rs x && rs.all (fun r => decide (x ≤ r.1))

/-- pop head: returns the greatest member and removes exactly it -/
def specPopHead (rs : R) (o : Option Nat) (out : R) : Bool :=
  specHead rs o &&
  match o with
  | none => out == rs
  | some x => denotes out [rs] [x] (fun h => member rs h && h != x)

def specPopTail (rs : R) (o : Option Nat) (out : R) : Bool :=
  specTail rs o &&
  match o with
  | none => out == rs
  | some x => denotes out [rs] [x] (fun h => member rs h && h != x)

/-- head-n: the `n` greatest members (all of them if there are fewer) -/
def specHeadn (rs : R) (n : Nat) : Obs → Bool
  | .ok out =>
    canonical out && card out == min n (card rs) &&
    (window [rs, out] []).all (fun h =>
      (!member out h || member rs h) &&
      (!(member rs h && !member out h) || out.all (fun r => decide (h < r.1))))
  | _ => false

/-- tail-n: the `n` least members -/
def specTailn (rs : R) (n : Nat) : Obs → Bool
  | .ok out =>
    canonical out && card out == min n (card rs) &&
    (window [rs, out] []).all (fun h =>
      (!member out h || member rs h) &&
      (!(member rs h && !member out h) || out.all (fun r => decide (r.2 < h))))
  | _ => false

/-- edges: the members that have a non-member neighbour -/
def specEdges (rs : R) : Obs → Bool
  | .ok out =>
    denotes out [rs] [] (fun h => member rs h && (!member rs (h - 1) || !member rs (h + 1)))
  | _ => false

/-- some height of `[lo, hi]` belongs to the range `r` -/
def meets (r : Nat × Nat) (lo hi : Nat) : Bool := decide (max r.1 lo ≤ min r.2 hi)

/-- left-of: the greatest member below `h` (`h ≥ 1`) -/
def specLeftOf (rs : R) (h : Nat) (o : Option Nat) : Bool :=
  match o with
  | none => rs.all (fun r => decide (h ≤ r.1))
  | some x => member rs x && decide (x < h) && rs.all (fun r => !meets r (x + 1) (h - 1))

/-- right-of: the least member above `h` -/
def specRightOf (rs : R) (h : Nat) (o : Option Nat) : Bool :=
  match o with
  | none => rs.all (fun r => decide (r.2 ≤ h))
  | some x => member rs x && decide (h < x) && rs.all (fun r => !meets r (h + 1) (x - 1))

/-- balanced partition: `left < middle < right`, together they are the set, sizes differ by ≤ 1 -/
def specPartitions (rs : R) (o : Option (R × Nat × R)) : Bool :=
  match o with
  | none => card rs == 0
  | some (l, m, r) =>
    canonical l && canonical r && member rs m &&
    l.all (fun x => decide (x.2 < m)) && r.all (fun x => decide (m < x.1)) &&
    sameOn (window [rs, l, r] [m]) (member rs) (fun h => member l h || h == m || member r h) &&
    decide (card l ≤ card r + 1) && decide (card r ≤ card l + 1)

/-! ### the helper-level operations (single-range methods, `find_affected_ranges`), on valid arguments -/

/-- number of heights of a (possibly empty) range; `none` = does not fit in u64 (0..=2^64-1) -/
def specRangeLen (r : Nat × Nat) (o : Option Nat) : Bool :=
  let c := if r.1 ≤ r.2 then r.2 + 1 - r.1 else 0
  o == (if c ≤ U64MAX then some c else none)

def specRangeAdjacent (a b : Nat × Nat) (o : Bool) : Bool := o == (a.2 + 1 == b.1 || b.2 + 1 == a.1)
/-- overlapping = sharing a height -/
def specRangeOverlapping (a b : Nat × Nat) (o : Bool) : Bool := o == (decide (a.1 ≤ b.2) && decide (b.1 ≤ a.2))
def specRangeLeftOf (a b : Nat × Nat) (o : Bool) : Bool := o == decide (a.2 < b.1)
def specRangeRightOf (a b : Nat × Nat) (o : Bool) : Bool := o == decide (b.2 < a.1)

/-- the `n` highest heights of a valid range (an empty range when `n = 0`) -/
def specRangeHeadn (r : Nat × Nat) (n : Nat) (out : Nat × Nat) : Bool :=
  if n == 0 then decide (out.2 < out.1)
  else out.2 == r.2 && decide (r.1 ≤ out.1) && decide (out.1 ≤ out.2) &&
       (out.2 + 1 - out.1 == min n (r.2 + 1 - r.1))

/-- the `n` lowest heights of a valid range -/
def specRangeTailn (r : Nat × Nat) (n : Nat) (out : Nat × Nat) : Bool :=
  if n == 0 then decide (out.2 < out.1)
  else out.1 == r.1 && decide (out.2 ≤ r.2) && decide (out.1 ≤ out.2) &&
       (out.2 + 1 - out.1 == min n (r.2 + 1 - r.1))

/-- `find_affected_ranges`: first and last index of the ranges that share a height with `r` or
    are adjacent to it -/
def specFind (rs : R) (r : Nat × Nat) (o : Option (Nat × Nat)) : Bool :=
  let idx := (List.range rs.length).filter (fun i =>
    match rs[i]? with
    | some x => decide (r.1 ≤ x.2 + 1) && decide (x.1 ≤ r.2 + 1)
    | none => false)
  o == (match idx.head?, idx.getLast? with
    | some i, some j => some (i, j)
    | _, _ => none)

end Lumina.Spec.C17

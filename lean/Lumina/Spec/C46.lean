/-
  C46 — Public data types round-trip through their wire and JSON forms.

  The property for one value and one form: encoding the value and decoding the result gives back an equal
  value.  What was observed is one of: the decoded value equals the original (`same`), it differs, or the
  decoder refused its own encoder's output.  Independent of the model.

  The one exception the property itself states: the JSON (and `RawShare`) form of a share carries no
  parity flag, so a parity share comes back as a non-parity share.
-/
namespace Lumina.Spec.C46

inductive Obs where
  | same
  | differs
  | decodeError
  deriving DecidableEq, Repr

/-- encode → decode gives an equal value -/
def specOK (o : Obs) : Bool := o == Obs.same

/-- the forms the property names -/
inductive Form where
  | protobuf
  | json
  deriving DecidableEq, Repr

/-- the stated exception: "parity shares excepted from the JSON share form, which carries no parity flag" —
    for a PARITY share the JSON form may (and does) come back different; the protobuf form is NOT excepted -/
def specShareOK (isParity : Bool) (f : Form) (o : Obs) : Bool :=
  if isParity && f == Form.json then true else specOK o

/-- which forms each kind of value has (block ranges, namespaces and bare merkle proofs have no protobuf message
    of their own in lumina; every other type named by the property has both) -/
def formsOf (kind : String) : List Form :=
  if kind == "ranges" || kind == "ns" || kind == "merkle" then [Form.json] else [Form.protobuf, Form.json]

def parseObs (w : String) : Option Obs :=
  if w == "same" then some .same
  else if w == "diff" then some .differs
  else if w == "err" then some .decodeError
  else none

end Lumina.Spec.C46

/-
  C46 — Public data types round-trip through their wire and JSON forms.

  The property for one value and one form: encoding the value and decoding the result gives back an equal
  value.  What was observed is one of: the decoded value equals the original (`same`), it differs, or the
  decoder refused its own encoder's output.  Independent of the model.

  The one exception the property itself states: the JSON (and `RawShare`) form of a share carries no
  parity flag, so a parity share comes back as a non-parity share.
-/
namespace Lumina.Spec.C46

inductive Obs where
  | same
  | differs
  | decodeError
  deriving DecidableEq, Repr

/-- encode → decode gives an equal value -/
def specOK (o : Obs) : Bool := o == Obs.same

/-- the stated exception: for a PARITY share the share forms may (and do) come back different -/
def specShareOK (isParity : Bool) (o : Obs) : Bool := if isParity then true else specOK o

def parseObs (w : String) : Option Obs :=
  if w == "same" then some .same
  else if w == "diff" then some .differs
  else if w == "err" then some .decodeError
  else none

end Lumina.Spec.C46

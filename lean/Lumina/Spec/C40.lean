/-
  C40 — Shrex peer pools contain only peers that announced the right data.

  The property as decidable checkers over what is OBSERVED of the tracker (its per-height pools, the
  validated pools it offers, its subjective head, its queue of outgoing events) plus the history facts
  the property itself speaks about (which notifications were received, which headers the store holds).
  Nothing here mentions the model.  The number 10 is the property's own.
-/
namespace Lumina.Spec.C40

inductive ObsPool where
  /-- not validated yet: the peers that voted, and the standing votes per announced hash -/
  | candidates (voted : List Nat) (votes : List (Nat × List Nat))
  /-- validated with this data hash -/
  | validated (hash : Nat)
  deriving Repr, DecidableEq

inductive ObsEv where
  | add (ps : List Nat)
  | block (ps : List Nat)
  deriving Repr, DecidableEq

structure Obs where
  /-- newest validated height -/
  head : Option Nat
  /-- height ↦ pool -/
  pools : List (Nat × ObsPool)
  /-- data hash ↦ peers offered -/
  vp : List (Nat × List Nat)
  /-- queued outgoing events, oldest first -/
  events : List ObsEv
  deriving Repr

def lookup {β} (l : List (Nat × β)) (k : Nat) : Option β := (l.find? (fun e => e.1 == k)).map (·.2)

/-- a `BlockPeers` naming `p` is among the events queued by this step (`after` minus the `before` prefix;
    when the step consumed the front of the queue nothing was queued before it) -/
def newlyBlocked (before after : Obs) (p : Nat) : Bool :=
  (after.events.drop before.events.length).any (fun e => match e with
    | .block ps => ps.contains p
    | .add _ => false)

/-- the peers `get_pool(h)` would offer, if `h` is validated -/
def offered (o : Obs) (h : Nat) : Option (List Nat) :=
  match lookup o.pools h with
  | some (.validated x) => some ((lookup o.vp x).getD [])
  | _ => none

/-- "a peer is offered for a height only if it announced the data hash of the stored header at that
    height": for every validated height, the validated hash is the stored header's data hash and every
    offered peer sent a notification carrying that hash.
    `stored` : height ↦ data hash of the headers in the store; `notified` : (peer, hash, height) received -/
def specOffered (stored : List (Nat × Nat)) (notified : List (Nat × Nat × Nat)) (o : Obs) : Bool :=
  o.pools.all (fun e => match e.2 with
    | .validated x =>
      lookup stored e.1 == some x &&
        ((lookup o.vp x).getD []).all (fun p => notified.any (fun n => n.1 == p && n.2.1 == x))
    | .candidates _ _ => true)

/-- the same for an actual answer of `get_pool(h)` -/
def specGet (stored : List (Nat × Nat)) (notified : List (Nat × Nat × Nat)) (h : Nat) (ps : List Nat) : Bool :=
  match lookup stored h with
  | some x => ps.all (fun p => notified.any (fun n => n.1 == p && n.2.1 == x))
  | none => false

/-- "pools for heights more than ten below the newest validated height are dropped" -/
def specWindow (o : Obs) : Bool :=
  match o.head with
  | none => o.pools.isEmpty
  | some H => o.pools.all (fun e => !(decide (H > e.1 + 10)))

/-- is the notification `(p, x, h)` ignored because `h` is ten or more below the newest validated height
    (or no height is validated yet)?  (`add_peer_for_hash` drops those: nothing to check for them) -/
def ignored (o : Obs) (h : Nat) : Bool :=
  match o.head with
  | none => true
  | some H => decide (h + 10 ≤ H)

/-- "peers that announced another hash for a validated height … are blocked": the notification `(p, x, h)`
    arrives while `h` is validated with a different hash ⇒ a `BlockPeers ∋ p` is queued -/
def specNotifyWrongHash (before after : Obs) (p x h : Nat) : Bool :=
  if ignored before h then true else
  match lookup before.pools h with
  | some (.validated y) => if y != x then newlyBlocked before after p else true
  | _ => true

/-- "… or announced twice, are blocked": the notification `(p, _, h)` arrives while `p` is already
    counted for `h` (it voted, or it is in the validated pool of `h`) ⇒ a `BlockPeers ∋ p` is queued -/
def specNotifyTwice (before after : Obs) (p h : Nat) : Bool :=
  if ignored before h then true else
  match lookup before.pools h with
  | some (.candidates voted _) => if voted.contains p then newlyBlocked before after p else true
  | some (.validated y) => if ((lookup before.vp y).getD []).contains p then newlyBlocked before after p else true
  | none => true

/-- "peers that announced another hash for a validated height … are blocked", at validation time: every
    height that turned from candidates to validated in this step has all voters of other hashes named in
    a queued `BlockPeers` -/
def specValidation (before after : Obs) : Bool :=
  after.pools.all (fun e => match e.2, lookup before.pools e.1 with
    | .validated x, some (.candidates _ votes) =>
      votes.all (fun v => if v.1 != x then v.2.all (fun p => newlyBlocked before after p) else true)
    | _, _ => true)

/-! ### the blocking clauses read over whole histories

  The checkers above look at one step.  Read over a history the property says: a peer that announced
  `(x, h)` and whose announcement still counts (it was not blocked since, not removed by `remove_peer`, and
  `h` did not fall out of the window) must be blocked when `h` is validated with another hash, and when it
  announces for `h` again.  `Vote`s are the announcements that still count; `monStep` advances them by one
  observed step and returns the violations of that step. -/

structure Vote where
  peer : Nat
  hash : Nat
  height : Nat
  /-- the pool that held this vote was dropped (while the height was still inside the window) after the
      header task of that height ended in a store error -/
  orphaned : Bool
  deriving Repr, DecidableEq

inductive MonOp where
  | notify (p x h : Nat)
  | remove (p : Nat)
  /-- a `poll` call and the event it delivered, if any -/
  | poll (delivered : Option ObsEv)
  | other
  deriving Repr, DecidableEq

inductive Violation where
  /-- `h` is validated with another hash than the one `vote` announced and the peer was never blocked -/
  | wrongHash (vote : Vote)
  /-- the peer of `vote` announced for the same height again and was not blocked -/
  | twice (vote : Vote)
  deriving Repr, DecidableEq

def blockNames : ObsEv → List Nat
  | .block ps => ps
  | .add _ => []

/-- the peers named in a `BlockPeers` that this step queued or delivered -/
def blockedNow (op : MonOp) (before after : Obs) : List Nat :=
  let queued := match op with
    | .poll _ => if before.events.isEmpty then after.events else []
    | _ => after.events.drop before.events.length
  let delivered := match op with
    | .poll (some ev) => blockNames ev
    | _ => []
  delivered ++ queued.flatMap blockNames

/-- `storeErrs`: the heights whose header task was made to fail with a store error so far -/
def monStep (storeErrs : List Nat) (votes : List Vote) (op : MonOp) (before after : Obs) :
    List Vote × List Violation :=
  let blocked := blockedNow op before after
  -- "announced twice": the peer already has a counting announcement for this height
  let twice : List Violation := match op with
    | .notify p _ h =>
      if ignored before h || blocked.contains p then []
      else (votes.filter (fun v => v.peer == p && v.height == h)).map Violation.twice
    | _ => []
  let votes : List Vote := match op with
    | .notify p x h => if ignored before h then votes else votes ++ [Vote.mk p x h false]
    | _ => votes
  -- blocked or removed peers stop counting
  let votes : List Vote := votes.filter (fun v => !blocked.contains v.peer)
  let votes : List Vote := match op with
    | .remove q => votes.filter (fun v => v.peer != q)
    | _ => votes
  -- pools that disappeared in this step
  let votes : List Vote := votes.filterMap (fun v =>
    if (lookup before.pools v.height).isSome && (lookup after.pools v.height).isNone then
      if ignored after v.height then none                      -- fell out of the window: can never be validated
      else some { v with orphaned := v.orphaned || storeErrs.contains v.height }
    else some v)
  -- "announced another hash for a validated height"
  let wrong : List Vote := votes.filter (fun v => match lookup after.pools v.height with
    | some (.validated y) => y != v.hash
    | _ => false)
  (votes.filter (fun v => !wrong.contains v), twice ++ wrong.map Violation.wrongHash)

end Lumina.Spec.C40

/-
  C28 — Header-ex client accepts only well-formed, validated responses.

  "For a height request the client accepts a response only as a non-empty run of individually
   validated headers with heights exactly start, start+1, ... of at most the requested amount;
   for a hash request only a single validated header with that hash; for a head request only a
   single validated header.  Anything else is an error."

  Stated over the observed outcome, for an arbitrary header type `H` with a height and a hash.
  A response entry is its status code (1 = OK) plus the validation oracle for its body
  (`some hdr` iff the body decodes AND validates).  Nothing here mentions the client model.
-/
namespace Lumina.Spec.C28

inductive Kind where
  | none                       -- request without `data`
  | height (start : Nat)       -- origin > 0
  | head                       -- origin = 0
  | hash (h : List Nat)
  deriving DecidableEq, Repr

/-- one response entry -/
structure Entry (H : Type) where
  status : Int
  validated : Option H

inductive Obs (H : Type) where
  | accepted (hs : List H)
  | error
  | panic

variable {H : Type} [DecidableEq H] (height : H → Nat) (hash : H → List Nat)

/-- the individually validated headers the peer sent with status OK -/
def validatedOf (es : List (Entry H)) : List H :=
  es.filterMap (fun e => if e.status = 1 then e.validated else none)

/-- is `hs` something the client may accept for this request? -/
def acceptable (k : Kind) (amount : Nat) (es : List (Entry H)) (hs : List H) : Bool :=
  !hs.isEmpty && hs.all (fun h => (validatedOf es).contains h) &&
  match k with
  | .height start =>
      decide (hs.length ≤ amount) && (hs.map height == List.range' start hs.length)
  | .hash h => decide (hs.length = 1) && hs.all (fun x => hash x == h)
  | .head => decide (hs.length = 1)
  | .none => false

/-- a response the client has no reason to refuse: every entry is OK and validated, there are
    between 1 and `amount` of them, and as sent they have the requested shape -/
def perfect (k : Kind) (amount : Nat) (es : List (Entry H)) : Bool :=
  es.all (fun e => decide (e.status = 1) && e.validated.isSome) &&
  acceptable height hash k amount es (validatedOf es) && decide (es.length ≤ amount)

/-- VALUE-level reading (weaker than the property; kept because other results build on it):
    accepted ⇒ the accepted list is acceptable; never a panic; a perfect response is accepted
    exactly as sent -/
def specValue (k : Kind) (amount : Nat) (es : List (Entry H)) : Obs H → Bool
  | .accepted hs =>
    acceptable height hash k amount es hs && (!perfect height hash k amount es || hs == validatedOf es)
  | .error => !perfect height hash k amount es
  | .panic => false

/-! ### the property at RESPONSE level ("anything else is an error")

  The response — the whole list of entries the peer sent — must itself be what the property
  names: 1..amount entries, EVERY entry OK and individually validated, and the headers (in any
  order on the wire: the property does not speak about wire order, the accepted run is ascending)
  are, for a height request, exactly the heights start, start+1, …; for a hash request a single
  header with that hash; for a head request a single header.  Exactly such responses are
  accepted, as the ascending list of their headers; every other response is an error. -/

/-- entry is OK and its body validated -/
def good (e : Entry H) : Bool := decide (e.status = 1) && e.validated.isSome

def insertH (h : H) : List H → List H
  | [] => [h]
  | x :: xs => if height h ≤ height x then h :: x :: xs else x :: insertH h xs

/-- ascending by height (insertion sort) -/
def sortH : List H → List H
  | [] => []
  | x :: xs => insertH height x (sortH xs)

/-- the response as a whole is a well-formed answer to the request -/
def wellFormed (k : Kind) (amount : Nat) (es : List (Entry H)) : Bool :=
  es.all good && decide (es.length ≤ amount) &&
  acceptable height hash k amount es (sortH height (validatedOf es))

/-- the property, strictly: accepted ⇔ the response is well formed, and then the accepted value
    is its headers in ascending order; never a panic -/
def specStrict (k : Kind) (amount : Nat) (es : List (Entry H)) : Obs H → Bool
  | .accepted hs => wellFormed height hash k amount es && (hs == sortH height (validatedOf es))
  | .error => !wellFormed height hash k amount es
  | .panic => false

/-- the ONE known class of responses on which lumina deliberately departs from the strict
    reading: the response has at most `amount` entries, is NOT well formed because some entry after
    the first good ones is bad (wrong status / fails validation) — and the client accepts the
    maximal good prefix, which on its own is a well-formed response, instead of an error -/
def validatedPrefixClass (k : Kind) (amount : Nat) (es : List (Entry H)) : Obs H → Bool
  | .accepted hs =>
    !wellFormed height hash k amount es && decide (es.length ≤ amount) &&
    specStrict height hash k amount (es.takeWhile good) (.accepted hs)
  | _ => false

/-- which requests the client may send at all (`is_valid`) and which of them are head requests:
    data present, at least one header asked for, exactly one for a head (origin 0) or hash
    request, and a hash of exactly 32 bytes -/
def specValid (k : Kind) (hashLen amount : Nat) (valid head : Bool) : Bool :=
  (valid == (decide (1 ≤ amount) &&
    match k with
    | .none => false
    | .height _ => true
    | .head => decide (amount = 1)
    | .hash _ => decide (hashLen = 32) && decide (amount = 1))) &&
  (head == (match k with
    | .head => decide (amount = 1)
    | _ => false))

end Lumina.Spec.C28

/-
  C28 — Header-ex client accepts only well-formed, validated responses.

  "For a height request the client accepts a response only as a non-empty run of individually
   validated headers with heights exactly start, start+1, ... of at most the requested amount;
   for a hash request only a single validated header with that hash; for a head request only a
   single validated header.  Anything else is an error."

  Stated over the observed outcome, for an arbitrary header type `H` with a height and a hash.
  A response entry is its status code (1 = OK) plus the validation oracle for its body
  (`some hdr` iff the body decodes AND validates).  Nothing here mentions the client model.
-/
namespace Lumina.Spec.C28

inductive Kind where
  | none                       -- request without `data`
  | height (start : Nat)       -- origin > 0
  | head                       -- origin = 0
  | hash (h : List Nat)
  deriving DecidableEq, Repr

/-- one response entry -/
structure Entry (H : Type) where
  status : Int
  validated : Option H

inductive Obs (H : Type) where
  | accepted (hs : List H)
  | error
  | panic

variable {H : Type} [DecidableEq H] (height : H → Nat) (hash : H → List Nat)

/-- the individually validated headers the peer sent with status OK -/
def validatedOf (es : List (Entry H)) : List H :=
  es.filterMap (fun e => if e.status = 1 then e.validated else none)

/-- is `hs` something the client may accept for this request? -/
def acceptable (k : Kind) (amount : Nat) (es : List (Entry H)) (hs : List H) : Bool :=
  !hs.isEmpty && hs.all (fun h => (validatedOf es).contains h) &&
  match k with
  | .height start =>
      decide (hs.length ≤ amount) && (hs.map height == List.range' start hs.length)
  | .hash h => decide (hs.length = 1) && hs.all (fun x => hash x == h)
  | .head => decide (hs.length = 1)
  | .none => false

/-- a response the client has no reason to refuse: every entry is OK and validated, there are
    between 1 and `amount` of them, and as sent they have the requested shape -/
def perfect (k : Kind) (amount : Nat) (es : List (Entry H)) : Bool :=
  es.all (fun e => decide (e.status = 1) && e.validated.isSome) &&
  acceptable height hash k amount es (validatedOf es) && decide (es.length ≤ amount)

/-- the property: accepted ⇒ acceptable; never a panic; and (so that "accepts only" is not
    satisfied by refusing everything) a perfect response is accepted exactly as sent -/
def specOK (k : Kind) (amount : Nat) (es : List (Entry H)) : Obs H → Bool
  | .accepted hs =>
    acceptable height hash k amount es hs && (!perfect height hash k amount es || hs == validatedOf es)
  | .error => !perfect height hash k amount es
  | .panic => false

end Lumina.Spec.C28

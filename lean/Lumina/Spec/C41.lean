/-
  C41 — Closing the redb store waits for in-flight work without hanging.

  The property, stated over what an observer of the REAL code sees, without mentioning the
  model's transition function:

    "close returns only after every blocking task started before/during the close has finished,
     and it does return once they have finished, for every interleaving".

  Two observation formats are used by the correspondence.

  * sequential histories (`Hist`): the harness hands out guards, runs `drop` (or its two halves)
    and polls the `wait_guards` future by hand; `specPoll` judges the result of one poll.
  * concurrent traces (`List Ev`): events of a real multi-threaded run, totally ordered by a
    global atomic stamp taken BEFORE the action for `…Begin` events and AFTER it for `…End`
    events; `specTrace` judges a whole trace.
-/
namespace Lumina.Spec.C41

/-- what has been done to the counter so far in a sequential history -/
structure Hist where
  /-- number of guards handed out (each stands for one in-flight blocking task) -/
  created : Nat
  /-- guards whose task has finished: their drop has at least begun (count released) -/
  released : List Nat
  /-- guards whose drop has run to completion -/
  dropped : List Nat
  deriving Repr, DecidableEq

def Hist.empty : Hist := { created := 0, released := [], dropped := [] }

/-- verdict on one poll of the close/wait future.
    `ready = true` (close returned): allowed only if every task has finished.
    `ready = false` (close still waiting): not allowed once every task's guard drop has completed. -/
def specPoll (h : Hist) (ready : Bool) : Bool :=
  if ready then (List.range h.created).all (fun i => h.released.contains i)
  else (List.range h.created).any (fun i => !h.dropped.contains i)

/-- events of a concurrent run -/
inductive Ev where
  /-- the wait/close future has been created -/
  | call
  | pollBegin
  | pollPending
  | pollReady
  /-- task `i` has finished its work; its guard is about to be dropped -/
  | dropBegin (i : Nat)
  /-- the drop of guard `i` has returned -/
  | dropEnd (i : Nat)
  deriving Repr, DecidableEq

/-- safety: at the moment the wait returns, every one of the `n` tasks had finished -/
def specSafe (n : Nat) : List Ev → List Ev → Bool
  | _, [] => true
  | seen, .pollReady :: rest =>
    (List.range n).all (fun i => seen.contains (.dropBegin i)) && specSafe n (.pollReady :: seen) rest
  | seen, e :: rest => specSafe n (e :: seen) rest

/-- liveness, as far as a finite observation can show it: if every task was observed to finish
    (`dropEnd i`, or `dropBegin i` when the end of the drop is not observable: `endsSeen = false`)
    then the wait was observed to return (within the harness's time-out) -/
def specLive (n : Nat) (endsSeen : Bool) (tr : List Ev) (returned : Bool) : Bool :=
  let fin := (List.range n).all (fun i => tr.contains (if endsSeen then .dropEnd i else .dropBegin i))
  !fin || returned

def specTrace (n : Nat) (endsSeen : Bool) (tr : List Ev) (returned : Bool) : Bool :=
  specSafe n [] tr && specLive n endsSeen tr returned && (returned == tr.contains .pollReady)

end Lumina.Spec.C41

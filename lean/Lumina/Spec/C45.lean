/-
  C45 — Verified balances are backed by a proof to the header's app hash.

  "A balance is reported as verified only if the node's answer carries a proof chain that links
   the account's bank key and returned value to the header's app hash; tampered values, keys,
   proofs or roots are rejected."

  The checkers below share only the DATA TYPES of the model (`CProof`, `CommitmentOp`, `RawOp`,
  `AbciResponse`); they do not use its functions.  `vm proof spec root key value` is the ics23
  membership check, a parameter.
-/
import Lumina.Model.AbciProofs

namespace Lumina.Spec.C45
open Lumina.Util
open Lumina.Model.AbciProofs (CProof BatchEntry CommitmentOp RawOp OpType SpecKind AbciResponse VM)

/-- every value some existence proof inside `p` commits to -/
def candidates (p : CProof) : List Bytes :=
  match p with
  | .exist e => [e.value]
  | .batch es => es.filterMap (fun | .exist e => some e.value | .other => none)
  | .other => []

/-- the roots the link of one operation may prove to: the trusted root for the last operation,
    otherwise a value committed to by the next operation -/
def nextRoots (root : Bytes) : List CommitmentOp → List Bytes
  | [] => [root]
  | op :: _ => candidates op.proof

/-- **a proof chain links (keys, leaf) to root**: operation `i` carries key `i`, proves
    `leaf_i` under some root `r_i` (ics23), `r_i` is committed to by operation `i+1` and is the
    leaf of the next link; the last link proves to `root`; keys and operations are used up
    together. -/
def linked (vm : VM) (root : Bytes) : List CommitmentOp → List Bytes → Bytes → Bool
  | [], [], _ => true
  | op :: ops, k :: ks, leaf =>
    op.key == k &&
    (nextRoots root ops).any (fun r => vm op.proof op.spec r k leaf && linked vm root ops ks r)
  | _, _, _ => false

/-- the verdicts of the REAL `ics23::verify_membership` on the queries a chain check can make,
    recorded by the harness next to the answer: (operation index, root, key, value, verdict) -/
abbrev VmTable := List (Nat × Bytes × Bytes × Bytes × Bool)

/-- `vm` as answered by the real ics23: a query about the proof of some operation of the chain is
    looked up in the table; a query that was not recorded counts as rejected -/
def vmOfTable (chain : List CommitmentOp) (tbl : VmTable) : VM := fun p s root key value =>
  match tbl.find? (fun e =>
      (match chain[e.1]? with
       | some op => decide (op.proof = p) && decide (op.spec = s)
       | none => false) && e.2.1 == root && e.2.2.1 == key && e.2.2.2.1 == value) with
  | some e => e.2.2.2.2
  | none => false

/-- observed outcome of `get_verified_balance` -/
inductive Obs where
  | ok (amount : Nat)
  | err
  deriving DecidableEq, Repr

def ascii (s : String) : Bytes := s.toList.map (fun c => UInt8.ofNat c.toNat)

/-- the account's bank key: balances prefix 0x02, address length, address, "utia" -/
def bankKey (addr : Bytes) : Bytes :=
  [0x02, UInt8.ofNat addr.length] ++ addr ++ ascii "utia"

def bank : Bytes := ascii "bank"

/-- the operations of a response, if all of them are of a supported type and decode -/
def opsOf : List RawOp → Option (List CommitmentOp)
  | [] => some []
  | op :: rest =>
    match op.type, op.data, opsOf rest with
    | .iavl, some p, some cs => some ({ key := op.key, spec := .iavl, proof := p } :: cs)
    | .simple, some p, some cs => some ({ key := op.key, spec := .simple, proof := p } :: cs)
    | _, _, _ => none

/-- decimal value of an ASCII digit string with an optional leading `+` -/
def decimal (bs : Bytes) : Option Nat :=
  let ds := match bs with
    | 43 :: rest => rest
    | _ => bs
  if ds.isEmpty || !ds.all (fun c => 48 ≤ c.toNat && c.toNat ≤ 57) then none
  else some (ds.foldl (fun acc c => acc * 10 + (c.toNat - 48)) 0)

/-- a balance reported as verified is backed by a chain from (bank key, returned value) through
    `"bank"` to the header's app hash, and is the returned value -/
def backed (vm : VM) (addr appHash : Bytes) (resp : Option AbciResponse) (amount : Nat) : Bool :=
  match resp with
  | none => false
  | some r =>
    r.code == 0 &&
    (match opsOf (r.proofOps.getD []) with
     | some chain => !chain.isEmpty && linked vm appHash chain [bankKey addr, bank] r.value
     | none => false) &&
    decimal r.value == some amount

def specBalance (vm : VM) (addr appHash : Bytes) (resp : Option AbciResponse) : Obs → Bool
  | .ok amount => backed vm addr appHash resp amount
  | .err => true

/-- `ProofChain::verify_membership` in general: acceptance implies a chain of links -/
def specVerify (vm : VM) (chain : List CommitmentOp) (root : Bytes) (keys : List Bytes) (leaf : Bytes)
    (accepted : Bool) : Bool :=
  if accepted then linked vm root chain keys leaf else true

end Lumina.Spec.C45

/-
  C34 — Data sampling respects concurrency limits and recency order.

  The property as a monitor over what can be observed of the sampler: the stimuli (`Ev`) and
  the observable actions (`Tok`) it performs in response.  The monitor keeps plain sets of
  heights (`Nat → Bool`) and counters; it never mentions the worker's queue, `BlockRanges`, or
  any function of the model.  A block is *started* when the sampler records its sampling metadata
  (`Tok.metaUpd`, the first observable action of a start in the code as it is); a `SamplingStarted` event
  or a share request for a block that is not counted as in progress is treated as a start too, so a start
  cannot escape the check by skipping the metadata record.

    startOK v h  :=  h is stored, is known to the sampler (seen at its last reading of the store),
                     not known sampled, not in progress, not promised to the pruner, not timed out
                     since the last reconnection                                     (eligible)
                 ∧  no eligible height above h up to the newest known one            (recency)
                 ∧  h's header is inside the sampling window
                 ∧  ¬ (h ≤ highest prunable ∧ pruner backlog ≥ 512)
                 ∧  (in progress < limit  ∨  h is the newest known stored ∧ in progress < limit + allowance)

  Only the vocabulary (`Ev`, `Tok`, `Share`) is imported from the model file.
-/
import Lumina.Model.Daser

namespace Lumina.Spec.C34
open Lumina.Model.Daser (Ev Tok Share)

structure View where
  /-- the concurrency limit -/
  limit : Nat
  /-- the header-sub allowance -/
  extra : Nat
  /-- heights whose header is in the store now -/
  stored : Nat → Bool
  /-- heights the store has marked as sampled now -/
  storeSampled : Nat → Bool
  /-- newest stored height now -/
  storeHead : Option Nat
  /-- the header of this height is inside the sampling window -/
  fresh : Nat → Bool
  /-- the sampler has peers (it only samples while connected) -/
  connected : Bool
  /-- the sampler is alive -/
  alive : Bool
  /-- stored heights the sampler knows of (its last reading of the store) and does not know to be sampled -/
  known : Nat → Bool
  /-- newest stored height at that reading -/
  newest : Option Nat
  /-- blocks being sampled -/
  inProgress : Nat → Bool
  /-- how many -/
  nInProgress : Nat
  /-- heights the pruner was allowed to remove -/
  promised : Nat → Bool
  /-- timed out (or found outside the window) since the last reconnection -/
  timedOut : Nat → Bool
  /-- the pruner's reports -/
  highestPrunable : Option Nat
  numPrunable : Nat

def add (f : Nat → Bool) (h : Nat) : Nat → Bool := fun x => x == h || f x
def del (f : Nat → Bool) (h : Nat) : Nat → Bool := fun x => x != h && f x
def none' : Nat → Bool := fun _ => false

def eligible (v : View) (x : Nat) : Bool :=
  v.known x && !v.inProgress x && !v.promised x && !v.timedOut x

/-- the heights strictly above `h` up to the newest known one -/
def above (v : View) (h : Nat) : List Nat := List.range' (h + 1) (v.newest.getD 0 - h)

def startOK (v : View) (h : Nat) : Bool :=
  v.alive && v.connected
  && v.stored h && eligible v h
  && (above v h).all (fun x => !eligible v x)
  && v.fresh h
  && !(decide (h ≤ v.highestPrunable.getD 0) && decide (v.numPrunable ≥ 512))
  && (decide (v.nInProgress < v.limit)
      || (v.newest == some h && decide (v.nInProgress < v.limit + v.extra)))

/-- highest stored height below `h` -/
def headBelow (stored : Nat → Bool) (h : Nat) : Option Nat :=
  (List.range h).reverse.find? stored

/-- what the environment does to the monitor's picture before the sampler reacts;
    `rejected` = the store refused the insert / removal -/
def applyEv (v : View) (ev : Ev) (rejected : Bool) : View :=
  match ev with
  | .insert lo hi =>
    if rejected then v
    else
      let inR : Nat → Bool := fun x => decide (lo ≤ x) && decide (x ≤ hi)
      { v with stored := fun x => inR x || v.stored x,
               storeSampled := fun x => !inR x && v.storeSampled x,
               storeHead := some (max hi (v.storeHead.getD 0)) }
  | .remove h =>
    if rejected then v
    else
      { v with stored := del v.stored h, storeSampled := del v.storeSampled h,
               storeHead := if v.storeHead == some h then headBelow v.stored h else v.storeHead }
  | .peers n =>
    if !v.alive then v
    else if v.connected && n == 0 then
      { v with connected := false, known := none', newest := none, inProgress := none', nInProgress := 0,
               timedOut := none' }
    else if !v.connected && n != 0 then { v with connected := true }
    else v
  | .setHighestPrunable x => if v.alive then { v with highestPrunable := some x } else v
  | .setNumPrunable x => if v.alive then { v with numPrunable := x } else v
  | .prune _ => v
  | .answer _ _ _ => v

/-- starting block `h` -/
def start (v : View) (h : Nat) : Option View :=
  if startOK v h then some { v with inProgress := add v.inProgress h, nInProgress := v.nInProgress + 1 }
  else none

/-- an action that belongs to the sampling of block `h` (its `SamplingStarted` event, a request for one of its
    shares): either `h` is already counted as in progress, or this action IS the start of `h` (a start is
    recognised by whichever of its actions comes first) and must satisfy `startOK` -/
def partOf (v : View) (h : Nat) : Option View :=
  if v.inProgress h then some v else start v h

/-- one observable action: `none` = the property is violated -/
def onTok (v : View) : Tok → Option View
  | .scan => some { v with known := fun x => v.stored x && !v.storeSampled x, newest := v.storeHead }
  | .mark h => some { v with known := del v.known h, storeSampled := if v.stored h then add v.storeSampled h else v.storeSampled }
  | .result h to =>
    some { v with inProgress := del v.inProgress h, nInProgress := v.nInProgress - 1,
                  timedOut := if to then add v.timedOut h else v.timedOut }
  | .metaUpd h _ => start v h
  | .started h _ _ => partOf v h
  | .req h _ => partOf v h
  | .grant h ok => if ok then some { v with promised := add v.promised h } else some v
  | .fatal => some { v with alive := false, connected := false, known := none', newest := none,
                            inProgress := none', nInProgress := 0, timedOut := none' }
  | _ => some v

def walk (v : View) : List Tok → Option View
  | [] => some v
  | t :: ts => match onTok v t with
    | none => none
    | some v' => walk v' ts

/-- the whole check for one stimulus -/
def specOK (v : View) (ev : Ev) (toks : List Tok) : Bool :=
  (walk (applyEv v ev (toks == [Tok.storeErr])) toks).isSome

/-- the check for a stimulus that is an answer which is neither a sample nor a timeout: the monitor's picture is
    unchanged (the share stays pending: it was not retrieved), the actions are walked as usual -/
def specBadAnswer (v : View) (toks : List Tok) : Bool := (walk v toks).isSome

/-- the first action that breaks the property, for diagnostics -/
def firstBad (v : View) : List Tok → Option Tok
  | [] => none
  | t :: ts => match onTok v t with
    | none => some t
    | some v' => firstBad v' ts

end Lumina.Spec.C34

/-
  How the header-ex client model's types are presented to the C28 spec (shared by the driver,
  which evaluates the spec on the implementation's results, and by Props/C28).
-/
import Lumina.Model.HeaderExClient
import Lumina.Spec.C28

namespace Lumina.Model.HeaderExClient
open Lumina.Spec.C28 (Kind Entry Obs)

def toKind : ReqData → Kind
  | .none => .none
  | .origin n => if n = 0 then .head else .height n
  | .hash h _ => .hash h

def toEntry (r : Resp) : Entry Hdr := { status := r.status, validated := r.decoded }

def obsOf : Outcome → Obs Hdr
  | .ok hs => .accepted hs
  | .err _ => .error
  | .panic => .panic

end Lumina.Model.HeaderExClient

/-
  The commit-verification model's data expressed in the vocabulary of the C03 spec
  (powers, addresses, entries).  Import-free; used by the driver (spec evaluated on the
  implementation's verdict) and by the theorems.
-/
import Lumina.Model.Commit
import Lumina.Spec.C03

namespace Lumina.Model.Commit

def toEntry (s : CSig) : Lumina.Spec.C03.Entry :=
  { isCommit := decide (s.flag = .commit), hasSig := s.hasSig, addr := s.addr }

def specInput (vs : ValSet) (height commitHeight : Nat) (sigs : List CSig) : Lumina.Spec.C03.Input :=
  { powers := vs.vals.map (·.power)
    vaddrs := vs.vals.map (·.addr)
    entries := sigs.map toEntry
    height := height
    commitHeight := commitHeight }

end Lumina.Model.Commit

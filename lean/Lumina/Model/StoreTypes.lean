/-
  Vocabulary shared by the header-store models (`Lumina/Model/Store.lean`) and the abstract
  store specification (`Lumina/Spec/C19.lean`): abstract headers, error kinds, operations and
  observable results of `/repo/node/src/store.rs` (`trait Store`).

  Headers are abstract records.  `id` identifies the complete header content (two headers
  with the same `id` are the same `ExtendedHeader`), `height` is `header.height()`, `hash` is
  `header.hash()` (= `commit.block_id.hash`, which an unvalidated header can share with another
  header), `valid` says whether the header passes `ExtendedHeader::validate`.  Header verification (`ExtendedHeader::verify`) is an oracle `Hdr → Hdr → Bool`.

  Import-free (core Lean only).
-/
namespace Lumina.Model.Store

abbrev Hash := Nat
abbrev Cid := Nat

structure Hdr where
  id : Nat
  height : Nat
  hash : Hash
  /-- the header survives `ExtendedHeader::decode(encode_vec())`, i.e. it passes
      `ExtendedHeader::validate` (decoding validates).  Every header received from the network
      is valid in this sense; an in-process caller can hand an unvalidated one to `insert`. -/
  valid : Bool
deriving DecidableEq, Repr, Inhabited

/-- kind of `BlockRangesError` -/
inductive RErr where
  | unsorted | invalid | overlap | noAdjacent
deriving DecidableEq, Repr, Inhabited

/-- kind of `StoreError` / `StoreInsertionError`, plus the outcome `panic`
    (`debug_assert!`, `.expect`, `panic!`, debug-build arithmetic overflow) -/
inductive Err where
  | notFound
  | headersVerificationFailed
  | neighborsVerificationFailed
  | constraintsNotMet (k : RErr)
  | hashExists (q : Hash)
  | storedDataError
  | panic
deriving DecidableEq, Repr, Inhabited

/-- `std::ops::Bound<u64>` -/
inductive Bound where
  | unbounded
  | included (x : Nat)
  | excluded (x : Nat)
deriving DecidableEq, Repr, Inhabited

/-- one call of the `Store` trait -/
inductive Op where
  | insert (batch : List Hdr)
  | remove (h : Nat)
  | mark (h : Nat)
  | updMeta (h : Nat) (cids : List Cid)
  | getByHeight (h : Nat)
  | hasAt (h : Nat)
  | getByHash (q : Hash)
  | has (q : Hash)
  | getMeta (h : Nat)
  | head
  | headHeight
  | getRange (lo hi : Bound)
  | storedRanges
  | sampledRanges
  | prunedRanges
deriving DecidableEq, Repr, Inhabited

/-- the value a call returns -/
inductive Out where
  | unit
  | hdr (x : Hdr)
  | bool (b : Bool)
  | nat (n : Nat)
  | md (m : Option (List Cid))
  | hdrs (l : List Hdr)
  | ranges (r : List (Nat × Nat))
deriving DecidableEq, Repr, Inhabited

/-- result of a call (`Except` has no `DecidableEq`; compare through this type) -/
inductive Res where
  | ok (o : Out)
  | err (e : Err)
deriving DecidableEq, Repr, Inhabited

def Res.isErr : Res → Bool
  | .err _ => true
  | .ok _ => false

/-- `u64::MAX` -/
def U64_MAX : Nat := 18446744073709551615

/-- typing facts of an operation: heights are `u64` -/
def Op.wf : Op → Bool
  | .insert batch => batch.all (fun h => decide (h.height ≤ U64_MAX))
  | .remove h => decide (h ≤ U64_MAX)
  | .mark h => decide (h ≤ U64_MAX)
  | .updMeta h _ => decide (h ≤ U64_MAX)
  | _ => true

/-- every header handed to `insert` is validated (the documented precondition of the stores:
    `ExtendedHeader::decode` validates, `verify` does not) -/
def Op.validated : Op → Bool
  | .insert batch => batch.all (fun h => h.valid)
  | _ => true

/-- mutating operations (the others are queries) -/
def Op.mutating : Op → Bool
  | .insert _ | .remove _ | .mark _ | .updMeta _ _ => true
  | _ => false

/-- `SamplingMetadata` update: append the CIDs that are not yet present, in order -/
def appendDedup : List Cid → List Cid → List Cid
  | acc, [] => acc
  | acc, c :: rest => if acc.contains c then appendDedup acc rest else appendDedup (acc ++ [c]) rest

/-! ## association lists (`HashMap` / redb tables): only `get` is observable -/

abbrev AMap (κ ν : Type) := List (κ × ν)

namespace AMap
variable {κ ν : Type} [DecidableEq κ]

def get : AMap κ ν → κ → Option ν
  | [], _ => none
  | (k', v) :: rest, k => if k' = k then some v else get rest k

def erase (m : AMap κ ν) (k : κ) : AMap κ ν := m.filter (fun p => !(decide (p.1 = k)))

/-- insert or replace -/
def insert (m : AMap κ ν) (k : κ) (v : ν) : AMap κ ν := (k, v) :: erase m k

def contains (m : AMap κ ν) (k : κ) : Bool := (get m k).isSome

end AMap

end Lumina.Model.Store

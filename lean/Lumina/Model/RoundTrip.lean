/-
  C46 — lumina-owned conversion layers between the public data types and their raw (protobuf / serde)
  structures: one `toRaw` (`From<T> for RawT`) and one `fromRaw` (`TryFrom<RawT> for T`) per type.

    Rust                                                        Lean
    ----------------------------------------------------------  ------------------------------
    types/src/nmt/namespaced_hash.rs  to_vec / from_raw          Nmt.NsHash.toBytes / ofBytes?   (group D)
    types/src/data_availability_header.rs  DAH <-> RawDAH        dahToRaw / dahFromRaw
    types/src/share.rs  Share <-> RawShare (also the serde form) shareToRaw / shareFromRaw
    types/src/nmt.rs  Namespace serde (base64)                   Namespace.serialize / deserialize (C14)
    types/src/nmt/namespace_proof.rs  NamespaceProof <-> RawProof     proofToRaw / Decoders.proofFromRaw
                                      NamespaceProof <-> RawNmtProof  nmtProofToRaw / nmtProofFromRaw
    types/src/merkle_proof.rs  MerkleProof <-> RawMerkleProof    merkleToRaw / merkleFromRaw
    types/src/data_availability_header.rs  RowProof <-> RawRowProof   rowProofToRaw / rowProofFromRaw
    types/src/share/proof.rs  ShareProof <-> RawShareProof       shareProofToRaw / shareProofFromRaw
    types/src/byzantine.rs  BadEncodingFraudProof <-> RawBadEncoding   befpToRaw / befpFromRawFull
    types/src/fraud_proof.rs  Proof <-> RawFraudProof (the JSON form of fraud proofs: type tag + base64 of the
                              protobuf payload)                        fraudToRaw / fraudFromRaw, fraudToJson / fraudFromJson
    node/src/block_ranges.rs  BlockRanges serde (transparent Vec / validating Deserialize)   Ranges.fromVec (group A)
    proto/src/serializers/bytes.rs  hexstring, base64string      hexUpperEncode / hexDecode, Namespace.b64Encode / b64Decode

  `none` of a `fromRaw` = the `Err(..)` of the Rust `TryFrom` (the kind is irrelevant here).
  Integers on the wire: `i64`/`i32`/`u32` fields are given as mathematical integers (`Int`) or naturals.
  Import-free apart from other import-free models (compiled into the driver).  Owner: group D3.
-/
import Lumina.Model.Decoders
import Lumina.Model.Ranges

namespace Lumina.Model.RoundTrip
open Lumina.Util Lumina.Model.Nmt Lumina.Model.Eds Lumina.Model.Decoders

/-- `iter.map(f).collect::<Result<Vec<_>>>()` for conversions whose error kind does not matter -/
def optMapM {α β} (f : α → Option β) : List α → Option (List β)
  | [] => some []
  | x :: xs =>
    match f x, optMapM f xs with
    | some y, some ys => some (y :: ys)
    | _, _ => none

/-! ## casts -/

/-- `x as i32` for an `i64`/`u32` value given as an integer: two's complement truncation -/
def toI32 (x : Int) : Int :=
  let w := x % 4294967296
  if w < 2147483648 then w else w - 4294967296

/-- `x as u32` -/
def toU32 (x : Int) : Nat := (x % 4294967296).toNat

/-- `x as i64` for a `usize` -/
def usizeToI64 (n : Nat) : Int := if n < 9223372036854775808 then (n : Int) else (n : Int) - 18446744073709551616

/-! ## DataAvailabilityHeader -/

structure RawDah where
  rowRoots : List Bytes
  colRoots : List Bytes
  deriving DecidableEq, Repr

def dahToRaw (d : Dah) : RawDah := ⟨d.rowRoots.map NsHash.toBytes, d.colRoots.map NsHash.toBytes⟩

def dahFromRaw (r : RawDah) : Option Dah :=
  match parseNodes r.rowRoots, parseNodes r.colRoots with
  | some a, some b => some ⟨a, b⟩
  | _, _ => none

/-! ## Share -/

/-- `From<Share> for RawShare`: the parity flag is not carried -/
def shareToRaw (s : Share) : Bytes := s.data

/-- `TryFrom<RawShare> for Share` = `Share::from_raw` (always a non-parity share) -/
def shareFromRaw (data : Bytes) : Option Share :=
  match Sample.shareFromRaw data with
  | .ok s => some s
  | .error _ => none

/-! ## NamespaceProof -/

/-- `self.leaf()`: only absence proofs carry a leaf -/
def proofLeaf (p : NsProof) : Option NsHash := if p.isAbsence then p.leaf else none

/-- `value.leaf().map(|hash| hash.to_vec()).unwrap_or_default()` -/
def proofLeafBytes (p : NsProof) : Bytes :=
  match proofLeaf p with
  | some l => l.toBytes
  | none => []

/-- `From<NamespaceProof> for RawProof` -/
def proofToRaw (p : NsProof) : RawProof :=
  { start := p.start, end_ := p.end_, nodes := p.siblings.map NsHash.toBytes,
    leafHash := proofLeafBytes p, ign := p.ignoreMaxNs }

/-- `celestia.core.v1.proof.NMTProof`: `start`, `end` are `i32`, no `is_max_namespace_ignored` -/
structure RawNmtProof where
  start : Int
  end_ : Int
  nodes : List Bytes
  leafHash : Bytes
  deriving DecidableEq, Repr

/-- `From<NamespaceProof> for RawNmtProof`: through `RawProof`, `as i32` -/
def nmtProofToRaw (p : NsProof) : RawNmtProof :=
  let r := proofToRaw p
  ⟨toI32 r.start, toI32 r.end_, r.nodes, r.leafHash⟩

/-- `TryFrom<RawNmtProof> for NamespaceProof`: `as i64`, `is_max_namespace_ignored: true`, then `TryFrom<RawProof>`
    (whose `as u32` only looks at the low 32 bits) -/
def nmtProofFromRaw (r : RawNmtProof) : Option NsProof :=
  NsProof.ofRaw (toU32 r.start) (toU32 r.end_) r.nodes r.leafHash true

/-! ## MerkleProof -/

structure MerkleProof where
  index : Nat      -- usize
  total : Nat      -- usize
  leafHash : Bytes -- [u8; 32]
  aunts : List Bytes
  deriving DecidableEq, Repr

structure RawMerkleProof where
  index : Int      -- i64
  total : Int      -- i64
  leafHash : Bytes
  aunts : List Bytes
  deriving DecidableEq, Repr

def merkleToRaw (p : MerkleProof) : RawMerkleProof :=
  ⟨usizeToI64 p.index, usizeToI64 p.total, p.leafHash, p.aunts⟩

def merkleFromRaw (r : RawMerkleProof) : Option MerkleProof :=
  if r.index < 0 then none
  else if r.total ≤ 0 then none
  else if r.leafHash.length ≠ 32 then none
  else if r.aunts.any (fun a => a.length != 32) then none
  else some ⟨r.index.toNat, r.total.toNat, r.leafHash, r.aunts⟩

/-! ## RowProof -/

structure RowProof where
  rowRoots : List NsHash
  proofs : List MerkleProof
  startRow : Nat   -- u16
  endRow : Nat     -- u16
  deriving DecidableEq, Repr

structure RawRowProof where
  rowRoots : List Bytes
  proofs : List RawMerkleProof
  startRow : Nat   -- u32
  endRow : Nat     -- u32
  /-- `root`: written as empty, ignored on read -/
  root : Bytes
  deriving DecidableEq, Repr

def rowProofToRaw (p : RowProof) : RawRowProof :=
  ⟨p.rowRoots.map NsHash.toBytes, p.proofs.map merkleToRaw, p.startRow, p.endRow, []⟩

def rowProofFromRaw (r : RawRowProof) : Option RowProof :=
  match parseNodes r.rowRoots, optMapM merkleFromRaw r.proofs with
  | some roots, some proofs =>
    if r.startRow > 65535 then none
    else if r.endRow > 65535 then none
    else some ⟨roots, proofs, r.startRow, r.endRow⟩
  | _, _ => none

/-! ## ShareProof -/

structure ShareProof where
  data : List Bytes          -- Vec<[u8; 512]>
  namespaceId : Bytes        -- Namespace (29 bytes)
  shareProofs : List NsProof
  rowProof : RowProof
  deriving DecidableEq, Repr

structure RawShareProof where
  data : List Bytes
  namespaceId : Bytes        -- 28-byte id
  namespaceVersion : Nat     -- u32
  shareProofs : List RawNmtProof
  rowProof : Option RawRowProof
  deriving DecidableEq, Repr

def shareProofToRaw (p : ShareProof) : RawShareProof :=
  ⟨p.data, Namespace.idBytes p.namespaceId, (Namespace.version p.namespaceId).toNat,
   p.shareProofs.map nmtProofToRaw, some (rowProofToRaw p.rowProof)⟩

def shareProofFromRaw (r : RawShareProof) : Option ShareProof :=
  if r.data.any (fun d => d.length != SHARE_SIZE) then none
  else if r.namespaceVersion > 255 then none
  else
    match Namespace.new (UInt8.ofNat r.namespaceVersion) r.namespaceId with
    | .error _ => none
    | .ok ns =>
      match optMapM nmtProofFromRaw r.shareProofs with
      | none => none
      | some sps =>
        match r.rowProof with
        | none => none
        | some rrp =>
          match rowProofFromRaw rrp with
          | none => none
          | some rp => some ⟨r.data, ns, sps, rp⟩

/-! ## BadEncodingFraudProof (with its header hash, which `Decoders.Befp` leaves out) -/

structure BefpFull where
  /-- `Hash::None` = `none`, `Hash::Sha256(h)` = `some h` -/
  headerHash : Option Bytes
  befp : Befp
  deriving Repr

def axisToI32 : Axis → Int
  | .row => 0
  | .col => 1

/-- `From<ShareWithProof> for RawShareWithProof` / `unwrap_or_default()` for absent shares -/
def befpShareToRaw : Option ShareWithProof → RawBefpShare
  | some s => ⟨s.ns ++ s.share, some (proofToRaw s.proof), axisToI32 s.proofAxis⟩
  | none => ⟨[], none, 0⟩

/-- `From<BadEncodingFraudProof> for RawBadEncodingFraudProof` -/
def befpToRaw (p : BefpFull) : RawBefp :=
  { headerHash := p.headerHash.getD [], height := p.befp.height, shares := p.befp.shares.map befpShareToRaw,
    index := p.befp.index, axis := axisToI32 p.befp.axis }

/-- `TryFrom<RawBadEncodingFraudProof>` including the header hash -/
def befpFromRawFull (raw : RawBefp) : Option BefpFull :=
  match befpFromRaw raw with
  | .ok p => some ⟨if raw.headerHash.length = 0 then none else some raw.headerHash, p⟩
  | _ => none

/-! ## proto/src/serializers/bytes.rs: hexstring -/

def hexUpperDigit (n : Nat) : Char := if n < 10 then Char.ofNat (48 + n) else Char.ofNat (55 + n)

/-- `hex::encode_upper` -/
def hexUpperEncode : Bytes → List Char
  | [] => []
  | b :: rest => hexUpperDigit (b.toNat / 16) :: hexUpperDigit (b.toNat % 16) :: hexUpperEncode rest

def hexUpperVal (c : Char) : Option Nat :=
  if '0' ≤ c ∧ c ≤ '9' then some (c.toNat - 48)
  else if 'A' ≤ c ∧ c ≤ 'F' then some (c.toNat - 55)
  else none

/-- `hex::decode_upper` -/
def hexUpperDecode : List Char → Option Bytes
  | [] => some []
  | [_] => none
  | a :: b :: rest =>
    match hexUpperVal a, hexUpperVal b, hexUpperDecode rest with
    | some x, some y, some r => some (UInt8.ofNat (x * 16 + y) :: r)
    | _, _, _ => none

/-! ## fraud proofs in JSON (types/src/fraud_proof.rs)

`Proof` is `#[serde(try_from = "RawFraudProof")]` with a hand-written `Serialize` that goes through
`From<&Proof> for RawFraudProof`: `{ proof_type: "badencoding", data: <protobuf bytes of the proof> }`, `data`
serialised with `tendermint_proto::serializers::bytes::base64string`.  The protobuf encoder/decoder of the
payload (prost, `Protobuf::encode_vec` / `decode_vec` up to the raw structure) is a PARAMETER. -/

/-- `BadEncodingFraudProof::TYPE` -/
def BEFP_TYPE : String := "badencoding"

/-- prost for `share.eds.byzantine.pb.BadEncoding`: `encode_vec` after `Into<Raw>`, `decode_vec` before `TryFrom<Raw>` -/
structure PbCodec where
  enc : RawBefp → Bytes
  dec : Bytes → Option RawBefp

/-- `RawFraudProof { proof_type, data }` -/
structure RawFraudProof where
  proofType : String
  data : Bytes
  deriving Repr

/-- `From<&Proof> for RawFraudProof` (the only variant is `Proof::BadEncoding`) -/
def fraudToRaw (pb : PbCodec) (p : BefpFull) : RawFraudProof := ⟨BEFP_TYPE, pb.enc (befpToRaw p)⟩

/-- `TryFrom<RawFraudProof> for Proof`: `none` = `UnsupportedFraudProofType` or a payload error -/
def fraudFromRaw (pb : PbCodec) (r : RawFraudProof) : Option BefpFull :=
  if r.proofType = BEFP_TYPE then
    match pb.dec r.data with
    | some raw => befpFromRawFull raw
    | none => none
  else none

/-- the two JSON fields: the type string and the base64 text of `data` -/
structure JsonFraudProof where
  proofType : String
  data : List Char
  deriving Repr

/-- `impl Serialize for Proof` -/
def fraudToJson (pb : PbCodec) (p : BefpFull) : JsonFraudProof :=
  let r := fraudToRaw pb p
  ⟨r.proofType, Namespace.b64Encode r.data⟩

/-- derived `Deserialize for Proof` (`try_from = "RawFraudProof"`): base64-decode `data`, then `TryFrom` -/
def fraudFromJson (pb : PbCodec) (j : JsonFraudProof) : Option BefpFull :=
  match Namespace.b64Decode j.data with
  | none => none
  | some d => fraudFromRaw pb ⟨j.proofType, d⟩

end Lumina.Model.RoundTrip

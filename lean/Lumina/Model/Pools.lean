/-
  Executable model of the ShrEx `PoolTracker` (`node/src/p2p/shrex/pool_tracker.rs`):
  `add_peer_for_hash`, `get_pool`, `remove_peer`, `poll` (pending events, header tasks, timeouts, store
  errors), `validate_pool`, `try_update_subjective_head`, `stale_height_threshold`.  Import-free.

  Representation: peers, data hashes and heights are numbers; `HashMap`/`HashSet` are association lists /
  lists in insertion order (the driver sorts where Rust's iteration order is unspecified).

  Environment, as inputs:
  * the header tasks (`new_headers_tasks: FuturesUnordered`): `queue` is its ready-to-run queue (FIFO: a
    task is enqueued when it is pushed and when it is woken), `waiters` the tasks parked on the store's
    `Notify` in registration order.  `poll_next` polls the queued tasks in order and yields the first one
    that is complete at that moment; the others park again.  A `store h dataHash` event (the header
    reaches the store) wakes every parked task (`notify_waiters`).  `taskTimeout h` / `taskStoreErr h`
    are tasks that complete with `HeaderTaskError::Timeout` / `StoreError` (120 s elapsed / store failure).
  * `stored`: height ↦ data hash of the headers the store holds.
  Ghost: `announced` (every accepted notification), `arrived` (every header a task delivered), `blocked`
  (every peer ever named in a queued `BlockPeers`), `removed` (every peer removed from outside).
  `.expect("must exist if hash_pool exists")` in `get_pool` ↦ `PoolRes.panic`.
-/
import Lumina.Gen.C40

namespace Lumina.Model.Pools

inductive Pool where
  /-- `Candidates((voted, candidates))` -/
  | candidates (voted : List Nat) (cands : List (Nat × List Nat))
  /-- `Validated(hash)` -/
  | validated (hash : Nat)
  deriving Repr, DecidableEq

inductive Ev where
  | addPeers (ps : List Nat)
  | blockPeers (ps : List Nat)
  deriving Repr, DecidableEq

/-- what a header task yields -/
inductive TaskRes where
  | ok (height hash : Nat)
  | timeout (height : Nat)
  | storeErr (height : Nat)
  deriving Repr, DecidableEq

/-- a future in `new_headers_tasks` -/
inductive Task where
  /-- `queue_get_header_from_store(height)`: `wait_height` then `get_by_height` -/
  | real (height : Nat)
  /-- a task that ends in `HeaderTaskError::Timeout(height)` -/
  | timeout (height : Nat)
  /-- a task that ends in `HeaderTaskError::StoreError` -/
  | storeErr (height : Nat)
  /-- the initial `get_subjective_head` task: the store head, once the store has one -/
  | head
  deriving Repr, DecidableEq

structure State where
  hashPools : List (Nat × Pool)
  validatedPools : List (Nat × List Nat)
  subjectiveHead : Option Nat
  pendingEvents : List Ev
  -- environment
  stored : List (Nat × Nat)
  queue : List Task
  waiters : List Task
  -- ghost
  announced : List (Nat × Nat × Nat)      -- (peer, hash, height) of every notification that was not ignored
  arrived : List (Nat × Nat)              -- (height, hash) of every header a task delivered
  blocked : List Nat := []                -- every peer ever named in a queued `BlockPeers`
  removed : List Nat := []                -- every peer `remove_peer` was called for from outside
  deriving Repr, DecidableEq

/-- `PoolTracker::new` over an empty store (the initial task waits for the first header) -/
def init : State :=
  { hashPools := [], validatedPools := [], subjectiveHead := none, pendingEvents := [], stored := [],
    queue := [.head], waiters := [], announced := [], arrived := [] }

inductive Event where
  | notify (peer hash height : Nat)
  | removePeer (peer : Nat)
  | poll
  /-- header `height` with data hash `hash` is inserted into the store -/
  | store (height hash : Nat)
  | taskTimeout (height : Nat)
  | taskStoreErr (height : Nat)
  deriving Repr, DecidableEq

inductive PollRes where
  | pending
  | readyNone
  | readyEv (ev : Ev)
  deriving Repr, DecidableEq

inductive PoolRes where
  | ok (peers : List Nat)
  | candidatesNotValidated
  | heightTooOld
  | heightNotTracked
  | panic
  deriving Repr, DecidableEq

def ROOT_HASH_WINDOW : Nat := Lumina.Gen.C40.ROOT_HASH_WINDOW

/-- `stale_height_threshold`: `subjective_head.saturating_sub(ROOT_HASH_WINDOW)` -/
def staleThreshold (head : Nat) : Nat := head - ROOT_HASH_WINDOW

/-! association-list helpers (`HashMap` get / insert / remove) -/

def alGet {β} (l : List (Nat × β)) (k : Nat) : Option β := (l.find? (fun e => e.1 == k)).map (·.2)
def alRemove {β} (l : List (Nat × β)) (k : Nat) : List (Nat × β) := l.filter (fun e => e.1 != k)
/-- insert or overwrite -/
def alSet {β} (l : List (Nat × β)) (k : Nat) (v : β) : List (Nat × β) :=
  if l.any (fun e => e.1 == k) then l.map (fun e => if e.1 == k then (k, v) else e) else l ++ [(k, v)]

/-- `candidates.entry(hash).or_insert_with(Vec::new).push(peer)` / `validated_pools.entry(h).or_default().push(p)` -/
def alPush (l : List (Nat × List Nat)) (k : Nat) (p : Nat) : List (Nat × List Nat) :=
  alSet l k ((alGet l k).getD [] ++ [p])

/-- the `None =>` arm of `add_peer_for_hash`: `queue_get_header_from_store(height)` and
    `hash_pools.entry(height).or_default()` -/
def ensurePool (s : State) (height : Nat) : State :=
  match alGet s.hashPools height with
  | some _ => s
  | none => { s with hashPools := alSet s.hashPools height (.candidates [] []),
                     queue := s.queue ++ [.real height] }

/-- the `match pool { … }` of `add_peer_for_hash` -/
def vote (s : State) (peer hash height : Nat) : State :=
  match alGet s.hashPools height with
  | some (.candidates voted cands) =>
    if voted.contains peer then
      -- duplicate vote
      { s with pendingEvents := s.pendingEvents ++ [.blockPeers [peer]], blocked := s.blocked ++ [peer] }
    else
      { s with hashPools := alSet s.hashPools height (.candidates (voted ++ [peer]) (alPush cands hash peer)) }
  | some (.validated vh) =>
    if vh == hash then
      if ((alGet s.validatedPools hash).getD []).contains peer then
        -- duplicate vote (lumina fix "block a peer that announces twice for an already validated height")
        { s with pendingEvents := s.pendingEvents ++ [.blockPeers [peer]], blocked := s.blocked ++ [peer] }
      else
        { s with validatedPools := alPush s.validatedPools hash peer,
                 pendingEvents := s.pendingEvents ++ [.addPeers [peer]] }
    else
      { s with pendingEvents := s.pendingEvents ++ [.blockPeers [peer]], blocked := s.blocked ++ [peer] }
  | none => s     -- not reachable: `ensurePool` ran first

/-- `add_peer_for_hash` -/
def notify (s : State) (peer hash height : Nat) : State :=
  match s.subjectiveHead with
  | none => s
  | some head =>
    if height ≤ staleThreshold head then s
    else vote (ensurePool { s with announced := s.announced ++ [(peer, hash, height)] } height) peer hash height

/-- `get_pool` -/
def getPool (s : State) (height : Nat) : PoolRes :=
  match alGet s.hashPools height with
  | some (.validated h) =>
    match alGet s.validatedPools h with
    | some ps => .ok ps
    | none => .panic
  | some (.candidates _ _) => .candidatesNotValidated
  | none =>
    match s.subjectiveHead with
    | some head => if height ≤ staleThreshold head then .heightTooOld else .heightNotTracked
    | none => .heightNotTracked

def removeFromPool (peer : Nat) : Pool → Pool
  | .candidates voted cands =>
    .candidates (voted.filter (· != peer)) (cands.map (fun e => (e.1, e.2.filter (· != peer))))
  | .validated h => .validated h

/-- `remove_peer` -/
def removePeer (s : State) (peer : Nat) : State :=
  { s with hashPools := s.hashPools.map (fun e => (e.1, removeFromPool peer e.2)),
           validatedPools := s.validatedPools.map (fun e => (e.1, e.2.filter (· != peer))) }

/-- `validate_pool` -/
def validatePool (s : State) (hash height : Nat) : State :=
  match alGet s.hashPools height with
  | some (.candidates _ cands) =>
    let validatedPeers := (alGet cands hash).getD []
    let rest := alRemove cands hash
    let ev1 := if validatedPeers.isEmpty then [] else [Ev.addPeers validatedPeers]
    let bad := rest.flatMap (·.2)
    let ev2 := if bad.isEmpty then [] else [Ev.blockPeers bad]
    { s with pendingEvents := s.pendingEvents ++ ev1 ++ ev2,
             blocked := s.blocked ++ bad,
             validatedPools := alSet s.validatedPools hash validatedPeers,
             hashPools := alSet s.hashPools height (.validated hash) }
  | some (.validated _) => s      -- "Multiple validate_pool for the same height, should not happen"
  | none => s

/-- the eviction loop `for h in to_evict_start..=to_evict_end` -/
def evict (s : State) : List Nat → State
  | [] => s
  | h :: hs =>
    let s := match alGet s.hashPools h with
      | some (.validated hash) =>
        { s with hashPools := alRemove s.hashPools h, validatedPools := alRemove s.validatedPools hash }
      | some (.candidates _ _) => { s with hashPools := alRemove s.hashPools h }
      | none => s
    evict s hs

/-- `try_update_subjective_head` -/
def tryUpdateSubjectiveHead (s : State) (height : Nat) : State :=
  match s.subjectiveHead with
  | none => { s with subjectiveHead := some height }
  | some old =>
    if height ≤ old then s
    else
      let a := staleThreshold old
      let b := staleThreshold height
      evict { s with subjectiveHead := some height } (List.range' a (b + 1 - a))

/-- the store head: the entry with the greatest height -/
def storeHead (stored : List (Nat × Nat)) : Option (Nat × Nat) :=
  stored.foldl (fun acc e => match acc with
    | none => some e
    | some a => if a.1 < e.1 then some e else some a) none

/-- `new_headers_tasks.poll_next`: poll the queued tasks in order; the first complete one is yielded,
    incomplete ones park on the store's `Notify`.  Returns the new (queue, waiters) and the result. -/
def pollNext (stored : List (Nat × Nat)) : List Task → List Task → List Task × List Task × Option TaskRes
  | [], waiters => ([], waiters, none)
  | t :: queue, waiters =>
    match t with
    | .real h =>
      match alGet stored h with
      | some x => (queue, waiters, some (.ok h x))
      | none => pollNext stored queue (waiters ++ [t])
    | .timeout h => (queue, waiters, some (.timeout h))
    | .storeErr h => (queue, waiters, some (.storeErr h))
    | .head =>
      match storeHead stored with
      | some (h, x) => (queue, waiters, some (.ok h x))
      | none => pollNext stored queue (waiters ++ [t])

/-- the body of `poll`'s loop; `fuel` bounds the `continue`s (one per failed task) -/
def pollLoop : Nat → State → State × PollRes
  | 0, s => (s, .pending)
  | fuel + 1, s =>
    match s.pendingEvents with
    | ev :: rest =>
      let s := { s with pendingEvents := rest }
      -- remove blocked peers from all pools
      let s := match ev with
        | .blockPeers ps => ps.foldl removePeer s
        | .addPeers _ => s
      (s, .readyEv ev)
    | [] =>
      let r := pollNext s.stored s.queue s.waiters
      let s := { s with queue := r.1, waiters := r.2.1 }
      match r.2.2 with
      | none => (s, .pending)
      | some (.ok height hash) =>
        let s := { s with arrived := s.arrived ++ [(height, hash)] }
        let s := tryUpdateSubjectiveHead s height
        let s := validatePool s hash height
        (s, .readyNone)
      | some (.timeout height) =>
        match (alGet s.hashPools height : Option Pool) with
        | some (Pool.candidates voted _) =>
          pollLoop fuel { s with hashPools := alRemove s.hashPools height,
                                 pendingEvents := s.pendingEvents ++ [.blockPeers voted],
                                 blocked := s.blocked ++ voted }
        | some (Pool.validated _) =>
          -- `if let Some(Candidates(..)) = self.hash_pools.remove(&height)`: the pool is removed regardless
          pollLoop fuel { s with hashPools := alRemove s.hashPools height }
        | none => pollLoop fuel s
      | some (.storeErr height) =>
        pollLoop fuel { s with hashPools := alRemove s.hashPools height }

def poll (s : State) : State × PollRes := pollLoop (s.queue.length + 2) s

/-- a header reaches the store: `notify_waiters` wakes every parked task -/
def store (s : State) (height hash : Nat) : State :=
  { s with stored := alSet s.stored height hash, queue := s.queue ++ s.waiters, waiters := [] }

structure Out where
  poll : Option PollRes := none
  deriving Repr, DecidableEq

def step (s : State) : Event → State × Out
  | .notify p h ht => (notify s p h ht, {})
  | .removePeer p => ({ removePeer s p with removed := s.removed ++ [p] }, {})
  | .poll => let r := poll s; (r.1, { poll := some r.2 })
  | .store ht h => (store s ht h, {})
  | .taskTimeout ht => ({ s with queue := s.queue ++ [.timeout ht] }, {})
  | .taskStoreErr ht => ({ s with queue := s.queue ++ [.storeErr ht] }, {})

def run (s : State) (evs : List Event) : State := evs.foldl (fun s e => (step s e).1) s

end Lumina.Model.Pools

/-
  Model of bech32 0.11.0 (`bech32::encode::<Bech32>`, `bech32::decode`) as used by
  `celestia_types::state::address` and of lumina's address layer on top of it
  (`types/src/state/address.rs`: `address_to_string`, `string_to_kind_and_id`,
  `FromStr for Address / AccAddress / ValAddress / ConsAddress`).

  Strings are lists of Unicode code points (`Str = List Nat`); bytes and field elements
  of GF(32) are `Nat`s (`< 256`, `< 32`).  No imports besides the import-free `Util`.

  Rust function                                   ↔ model function
  ------------------------------------------------------------------------------------------
  gf32.rs    CHARS_LOWER / Fe32::to_char          ↔ CHARS_LOWER / charOfFe
  gf32.rs    CHARS_INV / Fe32::from_char          ↔ CHARS_INV / feOfChar   (`from_char_unchecked` ↔ feOfCharUnchecked)
  checksum.rs PackedFe32 for u32 (unpack, mul_by_x_then_add)   ↔ unpack, mulByXThenAdd
  checksum.rs Engine::{new,input_fe,input_hrp,input_target_residue}, HrpFe32Iter
                                                  ↔ inputFe, hrpFes, inputHrp, inputTargetResidue
  mod.rs     GEN, Bech32::TARGET_RESIDUE = 1, Bech32m::TARGET_RESIDUE = 0x2bc830a3, CODE_LENGTH = 1023
  iter.rs    BytesToFes / FesToBytes              ↔ bytesToFes / fesToBytes (8↔5 bit regrouping; the
                                                     encoder pads with zero bits, the decoder DROPS an
                                                     incomplete trailing group without looking at it)
  iter.rs    Checksummed                          ↔ checksumFes
  encode.rs  CharIter, lib.rs encode_lower        ↔ encode
  decode.rs  check_characters                     ↔ checkCharacters
  hrp.rs     Hrp::parse                           ↔ hrpParse
  decode.rs  UncheckedHrpstring::{new,validate_checksum,remove_checksum}, lib.rs decode
                                                  ↔ validateChecksum, decode  (accepts a bech32m OR a bech32 checksum)
  address.rs AddressKind::{prefix,from_str}       ↔ Kind.pfx, kindOfStr
  address.rs address_to_string                    ↔ addressToString
  address.rs string_to_kind_and_id                ↔ stringToKindAndId
  address.rs FromStr for Address                  ↔ parseAddress
  address.rs FromStr for $name (macro)            ↔ parseAs
-/
import Lumina.Model.Util

namespace Lumina.Model.Bech32
open Lumina.Util

abbrev Str := List Nat

/-! ## gf32.rs -/

/-- `CHARS_LOWER`: "qpzry9x8gf2tvdw0s3jn54khce6mua7l" -/
def CHARS_LOWER : List Nat :=
  [113, 112, 122, 114, 121, 57, 120, 56, 103, 102, 50, 116, 118, 100, 119, 48,
   115, 51, 106, 110, 53, 52, 107, 104, 99, 101, 54, 109, 117, 97, 55, 108]

/-- `CHARS_INV` with `-1` written as 255 (what `-1i8 as u8` is) -/
def CHARS_INV : List Nat :=
  [255, 255, 255, 255, 255, 255, 255, 255, 255, 255, 255, 255, 255, 255, 255, 255,
   255, 255, 255, 255, 255, 255, 255, 255, 255, 255, 255, 255, 255, 255, 255, 255,
   255, 255, 255, 255, 255, 255, 255, 255, 255, 255, 255, 255, 255, 255, 255, 255,
    15, 255,  10,  17,  21,  20,  26,  30,   7,   5, 255, 255, 255, 255, 255, 255,
   255,  29, 255,  24,  13,  25,   9,   8,  23, 255,  18,  22,  31,  27,  19, 255,
     1,   0,   3,  16,  11,  28,  12,  14,   6,   4,   2, 255, 255, 255, 255, 255,
   255,  29, 255,  24,  13,  25,   9,   8,  23, 255,  18,  22,  31,  27,  19, 255,
     1,   0,   3,  16,  11,  28,  12,  14,   6,   4,   2, 255, 255, 255, 255, 255]

/-- `Fe32::to_char` -/
def charOfFe (fe : Nat) : Nat := CHARS_LOWER.getD fe 0

/-- `Fe32::from_char`: non-ASCII and `-1` table entries are errors -/
def feOfChar (c : Nat) : Option Nat :=
  if c < 128 then
    let v := CHARS_INV.getD c 255
    if v < 128 then some v else none
  else none

/-- `Fe32::from_char_unchecked` (only applied to characters already checked) -/
def feOfCharUnchecked (c : Nat) : Nat := CHARS_INV.getD c 255

def isUpper (c : Nat) : Bool := 65 ≤ c && c ≤ 90
def isLower (c : Nat) : Bool := 97 ≤ c && c ≤ 122
/-- `b | 32` on an upper-case ASCII letter -/
def toLower (c : Nat) : Nat := if isUpper c then c + 32 else c

/-! ## checksum.rs -/

def GEN : List Nat := [0x3b6a57b2, 0x26508e6d, 0x1ea119fa, 0x3d4233dd, 0x2a1462b3]
def BECH32_TARGET : Nat := 1
def BECH32M_TARGET : Nat := 0x2bc830a3
def CODE_LENGTH : Nat := 1023
def CHECKSUM_LENGTH : Nat := 6

/-- `PackedFe32::unpack` for `u32` -/
def unpack (r n : Nat) : Nat := (r >>> (n * 5)) &&& 0x1f

/-- `PackedFe32::mul_by_x_then_add(degree = 6, add)` for `u32`: returns (new residue, popped coefficient) -/
def mulByXThenAdd (r add : Nat) : Nat × Nat :=
  let ret := unpack r 5
  let r1 := r &&& (0xffffffff ^^^ (0x1f <<< 25))
  let r2 := (r1 <<< 5) &&& 0xffffffff
  (r2 ||| add, ret)

/-- `Engine::input_fe` -/
def inputFe (r e : Nat) : Nat :=
  let (r', xn) := mulByXThenAdd r e
  let r0 := if xn &&& 1 ≠ 0 then r' ^^^ 0x3b6a57b2 else r'
  let r1 := if xn &&& 2 ≠ 0 then r0 ^^^ 0x26508e6d else r0
  let r2 := if xn &&& 4 ≠ 0 then r1 ^^^ 0x1ea119fa else r1
  let r3 := if xn &&& 8 ≠ 0 then r2 ^^^ 0x3d4233dd else r2
  let r4 := if xn &&& 16 ≠ 0 then r3 ^^^ 0x2a1462b3 else r3
  r4

def inputFes (r : Nat) (fes : List Nat) : Nat := fes.foldl inputFe r

/-- `HrpFe32Iter`: high bits of every lower-cased byte, a zero, low bits of every lower-cased byte -/
def hrpFes (hrp : Str) : List Nat :=
  hrp.map (fun c => toLower c >>> 5) ++ [0] ++ hrp.map (fun c => toLower c &&& 0x1f)

/-- `Engine::new()` followed by `input_hrp` -/
def inputHrp (hrp : Str) : Nat := inputFes 1 (hrpFes hrp)

/-- the six coefficients of a packed residue, highest first -/
def unpack6 (r : Nat) : List Nat :=
  [unpack r 5, unpack r 4, unpack r 3, unpack r 2, unpack r 1, unpack r 0]

/-- `Engine::input_target_residue` -/
def inputTargetResidue (target r : Nat) : Nat := inputFes r (unpack6 target)

/-! ## iter.rs: 8 ↔ 5 bit regrouping -/

/-- `BytesToFes`: bits of the bytes, most significant first, cut into groups of five; the last
    group is padded with zero bits -/
def bytesToFes : List Nat → List Nat
  | b0 :: b1 :: b2 :: b3 :: b4 :: rest =>
    b0 / 8 :: ((b0 % 8) * 4 + b1 / 64) :: (b1 / 2) % 32 :: ((b1 % 2) * 16 + b2 / 16) ::
    ((b2 % 16) * 2 + b3 / 128) :: (b3 / 4) % 32 :: ((b3 % 4) * 8 + b4 / 32) :: b4 % 32 :: bytesToFes rest
  | [b0, b1, b2, b3] =>
    [b0 / 8, (b0 % 8) * 4 + b1 / 64, (b1 / 2) % 32, (b1 % 2) * 16 + b2 / 16,
     (b2 % 16) * 2 + b3 / 128, (b3 / 4) % 32, (b3 % 4) * 8]
  | [b0, b1, b2] => [b0 / 8, (b0 % 8) * 4 + b1 / 64, (b1 / 2) % 32, (b1 % 2) * 16 + b2 / 16, (b2 % 16) * 2]
  | [b0, b1] => [b0 / 8, (b0 % 8) * 4 + b1 / 64, (b1 / 2) % 32, (b1 % 2) * 16]
  | [b0] => [b0 / 8, (b0 % 8) * 4]
  | [] => []

/-- `FesToBytes`: bits of the field elements cut into groups of eight; an incomplete trailing
    group is dropped (its bits are NOT checked to be zero: `bech32::decode` does not validate
    padding) -/
def fesToBytes : List Nat → List Nat
  | f0 :: f1 :: f2 :: f3 :: f4 :: f5 :: f6 :: f7 :: rest =>
    (f0 * 8 + f1 / 4) :: ((f1 % 4) * 64 + f2 * 2 + f3 / 16) :: ((f3 % 16) * 16 + f4 / 2) ::
    ((f4 % 2) * 128 + f5 * 4 + f6 / 8) :: ((f6 % 8) * 32 + f7) :: fesToBytes rest
  | [f0, f1, f2, f3, f4, f5, f6] =>
    [f0 * 8 + f1 / 4, (f1 % 4) * 64 + f2 * 2 + f3 / 16, (f3 % 16) * 16 + f4 / 2, (f4 % 2) * 128 + f5 * 4 + f6 / 8]
  | [f0, f1, f2, f3, f4, _] => [f0 * 8 + f1 / 4, (f1 % 4) * 64 + f2 * 2 + f3 / 16, (f3 % 16) * 16 + f4 / 2]
  | [f0, f1, f2, f3, f4] => [f0 * 8 + f1 / 4, (f1 % 4) * 64 + f2 * 2 + f3 / 16, (f3 % 16) * 16 + f4 / 2]
  | [f0, f1, f2, f3] => [f0 * 8 + f1 / 4, (f1 % 4) * 64 + f2 * 2 + f3 / 16]
  | [f0, f1, _] => [f0 * 8 + f1 / 4]
  | [f0, f1] => [f0 * 8 + f1 / 4]
  | [_] => []
  | [] => []

/-! ## encode -/

/-- `Checksummed`: after the data, feed the target residue and emit the six coefficients of the
    resulting residue, highest first -/
def checksumFes (target : Nat) (hrp : Str) (fes : List Nat) : List Nat :=
  unpack6 (inputTargetResidue target (inputFes (inputHrp hrp) fes))

/-- `bech32::encode::<Ck>(hrp, data)` with `Ck::TARGET_RESIDUE = target` (lower-case form).
    The `encoded_length ≤ 1023` check is not modelled (always true for address-sized input). -/
def encode (target : Nat) (hrp : Str) (data : List Nat) : Str :=
  let fes := bytesToFes data
  hrp.map toLower ++ [49] ++ (fes ++ checksumFes target hrp fes).map charOfFe

/-! ## decode -/

/-- `check_characters`: scan from the END; the last `'1'` is the separator, everything after it
    must be a bech32 character; the whole string must not mix cases.  `chars` is the reversed
    string, `n` the number of characters not yet scanned (so the current index is `n - 1`). -/
def checkCharactersGo : List Nat → Nat → Bool → Bool → Bool → Option Nat → Option Nat
  | [], _, up, lo, _, sep => if up && lo then none else sep
  | ch :: rest, n, up, lo, req, sep =>
    let isSep := ch == 49 && sep.isNone
    let req' := if isSep then false else req
    let sep' := if isSep then some (n - 1) else sep
    if req' && (feOfChar ch).isNone then none
    else
      let up' := up || isUpper ch
      let lo' := lo || (!isUpper ch && isLower ch)
      checkCharactersGo rest (n - 1) up' lo' req' sep'

/-- `check_characters(s)`: position of the separator, or `none` for any `CharError` -/
def checkCharacters (s : Str) : Option Nat :=
  checkCharactersGo s.reverse s.length false false true none

/-- the case bookkeeping of `Hrp::parse` -/
def hrpParseGo : List Nat → Bool → Bool → Bool
  | [], _, _ => true
  | c :: rest, lo, up =>
    if c ≥ 128 then false
    else if c < 33 || c > 126 then false
    else if isLower c then (if up then false else hrpParseGo rest true up)
    else if isUpper c then (if lo then false else hrpParseGo rest lo true)
    else hrpParseGo rest lo up

/-- `Hrp::parse`: `true` iff accepted (the stored bytes are the input, case preserved) -/
def hrpParse (hrp : Str) : Bool :=
  if hrp.isEmpty then false
  else if hrp.length > 83 then false
  else hrpParseGo hrp false false

/-- `UncheckedHrpstring::validate_checksum::<Ck>` with `Ck::TARGET_RESIDUE = target` -/
def validateChecksum (target : Nat) (hrp : Str) (dataAscii : Str) (hrpstringLen : Nat) : Bool :=
  if hrpstringLen > CODE_LENGTH then false
  else if dataAscii.length < CHECKSUM_LENGTH then false
  else inputFes (inputHrp hrp) (dataAscii.map feOfCharUnchecked) == target

/-- `bech32::decode(s)`: `(hrp as written, data bytes)`; `none` for every `DecodeError` -/
def decode (s : Str) : Option (Str × List Nat) :=
  match checkCharacters s with
  | none => none
  | some sep =>
    let hrp := s.take sep
    let dataAscii := s.drop (sep + 1)
    if !hrpParse hrp then none
    else if !validateChecksum BECH32M_TARGET hrp dataAscii s.length
          && !validateChecksum BECH32_TARGET hrp dataAscii s.length then none
    else
      let ascii := dataAscii.take (dataAscii.length - CHECKSUM_LENGTH)
      some (hrp, fesToBytes (ascii.map feOfCharUnchecked))

/-! ## types/src/state/address.rs -/

inductive Kind where
  | account | validator | consensus
  deriving DecidableEq, Repr

/-- consts.rs `cosmos::BECH32_PREFIX_ACC_ADDR` = "celestia" -/
def PREFIX_ACC : Str := [99, 101, 108, 101, 115, 116, 105, 97]
/-- `BECH32_PREFIX_VAL_ADDR` = "celestia" ++ "val" ++ "oper" -/
def PREFIX_VAL : Str := PREFIX_ACC ++ [118, 97, 108] ++ [111, 112, 101, 114]
/-- `BECH32_PREFIX_CONS_ADDR` = "celestia" ++ "val" ++ "cons" -/
def PREFIX_CONS : Str := PREFIX_ACC ++ [118, 97, 108] ++ [99, 111, 110, 115]

/-- `AddressKind::prefix` -/
def Kind.pfx : Kind → Str
  | .account => PREFIX_ACC
  | .validator => PREFIX_VAL
  | .consensus => PREFIX_CONS

/-- `impl FromStr for AddressKind` -/
def kindOfStr (s : Str) : Option Kind :=
  if s = PREFIX_ACC then some .account
  else if s = PREFIX_VAL then some .validator
  else if s = PREFIX_CONS then some .consensus
  else none

inductive Err where
  | invalidAddress
  | invalidAddressPrefix (p : Str)
  | invalidAddressSize (n : Nat)
  deriving DecidableEq, Repr

def ADDRESS_SIZE : Nat := 20

/-- `address_to_string` (ids are `[u8; 20]`, so neither `expect` can fire) -/
def addressToString (k : Kind) (id : Bytes) : Str :=
  encode BECH32_TARGET k.pfx (id.map UInt8.toNat)

/-- `string_to_kind_and_id` -/
def stringToKindAndId (s : Str) : Except Err (Kind × Bytes) :=
  match decode s with
  | none => .error .invalidAddress
  | some (hrp, data) =>
    match kindOfStr hrp with
    | none => .error (.invalidAddressPrefix hrp)
    | some kind =>
      if data.length ≠ ADDRESS_SIZE then .error (.invalidAddressSize data.length)
      else .ok (kind, data.map UInt8.ofNat)

/-- `impl FromStr for Address` -/
def parseAddress (s : Str) : Except Err (Kind × Bytes) := stringToKindAndId s

/-- `impl FromStr for AccAddress / ValAddress / ConsAddress` (macro `impl_address_type`) -/
def parseAs (k : Kind) (s : Str) : Except Err (Kind × Bytes) :=
  match stringToKindAndId s with
  | .error e => .error e
  | .ok (kind, id) => if kind = k then .ok (kind, id) else .error (.invalidAddressPrefix kind.pfx)

/-- the parse entry points: `none` = `Address`, `some k` = the typed address of kind `k` -/
def parse (as : Option Kind) (s : Str) : Except Err (Kind × Bytes) :=
  match as with
  | none => parseAddress s
  | some k => parseAs k s

end Lumina.Model.Bech32

/-
  C22 × C19/C20/C21 — the crash model of `Model/Crash.lean` INSTANTIATED with the faithful
  redb store model of `Model/Store.lean` (group B).

  `Model/Crash.lean` is generic: a store operation is any `σ → Except ε σ`.  Here

    σ  :=  `Db`     the logical content of the database file: the identity row written by
                    `RedbStore::new` plus the tables `Store.Tables` the store operations touch
                    (schema version 3; migrations are C23)
    ε  :=  `Store.Err`
    one operation :=  `txOf v op`, the closure the `Store` call `op` hands to its ONE
                    `write_tx` (`RedbStore.insertTx`, `removeHeightTx`, `markAsSampledTx`,
                    `updateSamplingMetadataTx` of `Model/Store.lean`, unchanged)
    reopen :=  `openTx newId`, the closure of `RedbStore::new` on an initialised v3 database

  Which calls start a write transaction (`issuesTx`): `insert` of a batch that passes
  `TryFrom<Vec<ExtendedHeader>> for VerifiedExtendedHeaders` (the conversion runs BEFORE
  `write_tx`; a batch it rejects never reaches the database), `remove_height`,
  `mark_as_sampled`, `update_sampling_metadata`.  Queries run read transactions; neither they
  nor a batch rejected by the conversion touch the file, so a crash history is a history of
  the calls with `issuesTx`; the others are no-ops on `Tables` (`Proofs/CrashRedb.lean`).

  `dumpOf` renders a `Db` in the representation `Spec.C22.consistent` is stated over
  (`CrashStore.St`, the canonical dump `harness/src/bin/c22.rs` takes of the raw tables):
  tables in ascending key order, range vectors expanded to ascending height lists, a header
  shown as (height, name of its hash, name of the hash its `last_block_id` points to).

  Import-free apart from sibling models.  Used by theorems only (not by a driver).
-/
import Lumina.Model.Crash
import Lumina.Model.Store
import Lumina.Model.CrashStore

namespace Lumina.Model.CrashRedb
open Lumina.Model.Store

/-- logical content of the database file of an initialised (schema v3) store -/
structure Db where
  /-- LIBP2P_IDENTITY_TABLE: the stored keypair (`0` = table empty) -/
  identity : Nat
  /-- the tables the `Store` operations read and write -/
  tables : Tables

/-- the closure a `Store` call runs inside its single `write_tx`, as a function on the tables.
    `insert`: `headers.try_into()?` is evaluated first, outside the transaction. -/
def closure (v : Hdr → Hdr → Bool) : Op → Tables → Except Err Tables
  | .insert batch, t =>
    match tryIntoVerified v batch with
    | .error e => .error e
    | .ok hs =>
      match RedbStore.insertTx v hs t with
      | .ok (t', _) => .ok t'
      | .error e => .error e
  | .remove h, t =>
    match RedbStore.removeHeightTx h t with
    | .ok (t', _) => .ok t'
    | .error e => .error e
  | .mark h, t =>
    match RedbStore.markAsSampledTx h t with
    | .ok (t', _) => .ok t'
    | .error e => .error e
  | .updMeta h cids, t =>
    match RedbStore.updateSamplingMetadataTx h cids t with
    | .ok (t', _) => .ok t'
    | .error e => .error e
  | _, t => .ok t

/-- the `Store` call `op` as an operation of the crash model: its closure acts on the tables,
    the identity row is not touched -/
def txOf (v : Hdr → Hdr → Bool) (op : Op) : Crash.Op Db Err := fun db =>
  match closure v op db.tables with
  | .ok t' => .ok { db with tables := t' }
  | .error e => .error e

/-- the call reaches `write_tx` (see the header comment) -/
def issuesTx (v : Hdr → Hdr → Bool) : Op → Bool
  | .insert batch =>
    match tryIntoVerified v batch with
    | .ok _ => true
    | .error _ => false
  | .remove _ | .mark _ | .updMeta _ _ => true
  | _ => false

/-- closure of `RedbStore::new` on an initialised v3 database: schema row present and current
    (migrations are no-ops), tables exist, an identity is generated only if none is stored -/
def openTx (newId : Nat) : Crash.Op Db Err := fun db =>
  .ok { db with identity := if db.identity = 0 then newId else db.identity }

/-- a store right after its first `RedbStore::new`: identity `id0`, all tables empty -/
def fresh (id0 : Nat) : Db := { identity := id0, tables := RedbStore.new }

/-! ### the canonical dump -/

/-- ascending duplicate-free list of the keys of a table (redb iterates in key order) -/
def sortedKeys {ν : Type} (m : AMap Nat ν) : List Nat :=
  (m.map (fun e => e.1)).foldr CrashStore.setInsert []

/-- a table as the list of its entries in ascending key order -/
def dumpTable {ν : Type} (m : AMap Nat ν) : List (Nat × ν) :=
  (sortedKeys m).filterMap (fun k => (AMap.get m k).map (fun x => (k, x)))

/-- the vector stored under a key of RANGES_TABLE (`[]` if the key is absent) -/
def rawRanges (t : Tables) (k : RKey) : Ranges.Ranges := (AMap.get t.ranges k).getD []

/-- a header as the dump shows it; `name` renders a hash, `parent x` is the hash
    `x.header.last_block_id` points to (a projection of the header content) -/
def convHdr (name : Hash → String) (parent : Hdr → Hash) (x : Hdr) : CrashStore.Hdr :=
  { height := x.height, name := name x.hash, parent := name (parent x) }

/-- the dump of a database on which `RedbStore::new` has completed -/
def dumpOf (name : Hash → String) (parent : Hdr → Hash) (db : Db) : CrashStore.St :=
  { opened := true
    identity := db.identity
    headers := (dumpTable db.tables.headers).map (fun e => (e.1, convHdr name parent e.2))
    heights := ((dumpTable db.tables.heights).map (fun e => (name e.1, e.2))).foldr
                 CrashStore.heightsInsert []
    stored := Ranges.heights (rawRanges db.tables .header)
    sampled := Ranges.heights (rawRanges db.tables .sampled)
    pruned := Ranges.heights (rawRanges db.tables .pruned)
    smeta := dumpTable db.tables.samplingMetadata }

end Lumina.Model.CrashRedb

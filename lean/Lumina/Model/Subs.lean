/-
  Executable model of `BroadcastingStore` (`node/src/node/subscriptions.rs`): `init_broadcast`,
  `announce_insert` (historical / adjacent / pending + the drain loop with `swap_remove`) and
  `send_range`.  Import-free.

  Headers are abstracted to their heights (`Vec<ExtendedHeader>` ↦ `List Nat`): the code only looks at
  `.height()` of the first and last header of a range and hands every header to the channel.

  Environment, modelled as inputs / ghost state:
  * the inner `Store`: `stored` is the set of heights it holds.  Whether `inner.insert(range)` succeeds is
    an INPUT of the event (`storeOk`); when it does the heights are added to `stored`.
  * `initBroadcast h` models what the syncer does on (re)connection: `try_init` makes sure `h` is in the
    store (inserts it unless it already is the store head), then calls `init_broadcast(h)`.
  * `sentLog`: everything handed to `broadcast::Sender::send` so far, in order (what a receiver
    subscribed from the start and keeping up receives).
  * `debug_assert!` / `expect` failures ↦ `Out.panic` (state unchanged: the syncer task dies).
  * u64 overflow of `last_sent_height + 1` is not modelled (heights are far below 2^64).
-/
namespace Lumina.Model.Subs

structure State where
  /-- `last_sent_height` -/
  lastSent : Option Nat
  /-- `pending` -/
  pending : List (List Nat)
  /-- heights held by the inner store (environment) -/
  stored : List Nat
  /-- ghost: every height handed to the broadcast channel so far -/
  sentLog : List Nat
  /-- ghost: the head of the first `init_broadcast` -/
  firstHead : Option Nat
  deriving Repr, DecidableEq

def init : State := { lastSent := none, pending := [], stored := [], sentLog := [], firstHead := none }

inductive Event where
  /-- the store already holds these heights (from an earlier run of the node / direct inserts) -/
  | storeInsert (range : List Nat)
  | initBroadcast (head : Nat)
  | announceInsert (range : List Nat) (storeOk : Bool)
  deriving Repr, DecidableEq

structure Out where
  /-- heights handed to the channel by this call, in order -/
  sent : List Nat := []
  /-- result of `announce_insert`: `Ok(())` / `Err(_)` -/
  result : Option Bool := none
  panic : Bool := false
  deriving Repr, DecidableEq

/-- `Vec::swap_remove(i)`: the last element takes the place of element `i` -/
def swapRemove {α} (l : List α) (i : Nat) : List α :=
  match l.getLast? with
  | none => l
  | some z => (l.set i z).dropLast

inductive Scan where
  | found (i : Nat) (r : List Nat)
  | notFound
  | panic
  deriving Repr, DecidableEq

/-- one pass of the `while i < self.pending.len()` loop from `i`, up to the first range whose first
    height is `target` (`first().expect("header range shouldn't be empty")` panics on an empty range) -/
def scan (target : Nat) : List (List Nat) → Nat → Scan
  | [], _ => .notFound
  | r :: rest, i =>
    match r.head? with
    | none => .panic
    | some f => if f == target then .found i r else scan target rest (i + 1)

/-- the drain loop: repeatedly send the first pending range that starts at `last + 1`.
    `fuel` bounds the number of iterations (each one removes a range; `pending.length` suffices).
    Returns `none` on panic, else (last_sent, pending, heights sent). -/
def drain : Nat → Nat → List (List Nat) → Option (Nat × List (List Nat) × List Nat)
  | 0, last, p => some (last, p, [])
  | fuel + 1, last, p =>
    match scan (last + 1) p 0 with
    | .panic => none
    | .notFound => some (last, p, [])
    | .found i r =>
      -- `send_range`: last_sent := last height of the range, then every header is sent
      match drain fuel (r.getLast?.getD last) (swapRemove p i) with
      | none => none
      | some (l', p', s) => some (l', p', r ++ s)

def addStored (stored : List Nat) (range : List Nat) : List Nat :=
  stored ++ range.filter (fun x => !stored.contains x)

/-- `try_init` (store the head) + `init_broadcast(head)` -/
def initBroadcast (s : State) (head : Nat) : State × Out :=
  match s.lastSent with
  | none =>
    ({ s with lastSent := some head, stored := addStored s.stored [head], sentLog := s.sentLog ++ [head],
              firstHead := some head }, { sent := [head] })
  | some last =>
    if last + 1 == head then
      -- re-connection and the new head directly follows the last sent height: forwarded right away
      -- (lumina fix "forward a re-connection head that directly follows the last sent height")
      ({ s with lastSent := some head, stored := addStored s.stored [head], sentLog := s.sentLog ++ [head] },
       { sent := [head] })
    else
      ({ s with pending := s.pending ++ [[head]], stored := addStored s.stored [head] }, {})

/-- the tail of `announce_insert` once the range is stored: the state after the adjacent-or-pending
    decision (`last1`, `pending1`, heights already sent `sent1`), then the drain loop -/
def finish (s : State) (stored : List Nat) (last1 : Nat) (pending1 : List (List Nat)) (sent1 : List Nat) :
    State × Out :=
  match drain pending1.length last1 pending1 with
  | none => (s, { panic := true })
  | some (last', pending', sent') =>
    ({ s with lastSent := some last', pending := pending', stored, sentLog := s.sentLog ++ (sent1 ++ sent') },
     { sent := sent1 ++ sent', result := some true })

/-- `announce_insert(range)`; `ok` = whether `inner.insert(range)` succeeds -/
def announceInsert (s : State) (range : List Nat) (ok : Bool) : State × Out :=
  match s.lastSent with
  | none => (s, { panic := true })            -- expect("syncer should have initialised the height by now")
  | some last =>
    match range.head?, range.getLast? with
    | some lo, some hi =>
      if !(decide (hi < last) || decide (lo > last)) then (s, { panic := true })   -- debug_assert!
      else if lo < last then
        -- historical range: `return self.inner.insert(range).await`
        (if ok then { s with stored := addStored s.stored range } else s, { result := some ok })
      else if !ok then (s, { result := some false })                              -- `insert(..).await?`
      else if last + 1 == lo then
        -- `send_range(range)`: last_sent := hi, every header sent
        finish s (addStored s.stored range) hi s.pending range
      else
        finish s (addStored s.stored range) last (s.pending ++ [range]) []
    | _, _ => (s, { result := some true })     -- empty range is ignored

def step (s : State) : Event → State × Out
  | .storeInsert r => ({ s with stored := addStored s.stored r }, {})
  | .initBroadcast h => initBroadcast s h
  | .announceInsert r ok => announceInsert s r ok

def run (s : State) (evs : List Event) : State := evs.foldl (fun s e => (step s e).1) s

end Lumina.Model.Subs

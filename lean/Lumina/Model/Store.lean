/-
  Executable models of the two header stores of `/repo/node/src/store/`:

  * `MemStore`  transcribes `InMemoryStoreInner` (`in_memory_store.rs`): two hash maps, three
    `BlockRanges`, the sampling-metadata map; every method in the order of the Rust code, with
    the state mutated so far returned also when the method fails or panics.
  * `RedbStore` transcribes `redb_store.rs`: the tables as association lists; every method is a
    function `Tables → Except Err (Tables × α)` run by `writeTx` (commit on `Ok`, abort =
    unchanged tables on `Err`) or `readTx`.  That a redb write transaction is atomic is the
    NAMED HYPOTHESIS `writeTx` encodes (crash behaviour: property C22).
  * the default method `Store::get_range` and `to_headers_range` of `store.rs`.

  Header verification is the oracle `verify : Hdr → Hdr → Bool` (`ExtendedHeader::verify`);
  `TryFrom<Vec<ExtendedHeader>> for VerifiedExtendedHeaders` is `tryIntoVerified`.
  Serialisation (`encode_vec` / `decode`) is the identity on sampling metadata and on VALID
  headers; decoding a header that does not pass `ExtendedHeader::validate` fails (`decodeHeader`).

  Import-free apart from the sibling models.
-/
import Lumina.Model.Ranges
import Lumina.Model.StoreTypes

namespace Lumina.Model.Store


/-! ## glue to the `BlockRanges` model -/

def rerrKind : Ranges.Err → Err
  | .unsorted => .constraintsNotMet .unsorted
  | .invalid _ => .constraintsNotMet .invalid
  | .overlap _ _ => .constraintsNotMet .overlap
  | .noAdjacent _ => .constraintsNotMet .noAdjacent
  | .panic => .panic

/-- `.map_err(StoreInsertionError::ConstraintsNotMet)` -/
def constraints (x : Ranges.Res α) : Except Err α :=
  match x with
  | .ok a => .ok a
  | .error e => .error (rerrKind e)

/-- `.expect(..)` on a `BlockRanges` result -/
def expectR (x : Ranges.Res α) : Except Err α :=
  match x with
  | .ok a => .ok a
  | .error _ => .error .panic

/-- debug-build `a - 1` / `a + 1` on `u64` -/
def pred64 (a : Nat) : Except Err Nat := if 1 ≤ a then .ok (a - 1) else .error .panic
def succ64 (a : Nat) : Except Err Nat := if a + 1 ≤ U64_MAX then .ok (a + 1) else .error .panic

/-! ## `VerifiedExtendedHeaders` (store/utils.rs) and `ExtendedHeader::verify_adjacent_range` -/

/-- loop of `verify_range`: `first` = the iteration with `i == 0` -/
def verifyRangeGo (verify : Hdr → Hdr → Bool) : Hdr → List Hdr → Bool → Bool
  | _, [], _ => true
  | trusted, u :: rest, first =>
    if !first && trusted.height + 1 != u.height then false
    else if !verify trusted u then false
    else verifyRangeGo verify u rest false

/-- `ExtendedHeader::verify_adjacent_range` (true = `Ok(())`) -/
def verifyAdjacentRange (verify : Hdr → Hdr → Bool) (self : Hdr) (untrusted : List Hdr) : Bool :=
  match untrusted with
  | [] => true
  | u0 :: _ =>
    if self.height + 1 != u0.height then false
    else verifyRangeGo verify self untrusted true

/-- `TryFrom<Vec<ExtendedHeader>> for VerifiedExtendedHeaders`
    (`From<ExtendedHeader>` gives the same value for a single header) -/
def tryIntoVerified (verify : Hdr → Hdr → Bool) (headers : List Hdr) : Except Err (List Hdr) :=
  match headers with
  | [] => .ok []
  | head :: rest =>
    if verifyAdjacentRange verify head rest then .ok headers
    else .error .headersVerificationFailed

/-- `ExtendedHeader::verify_adjacent` -/
def verifyAdjacent (verify : Hdr → Hdr → Bool) (a b : Hdr) : Bool :=
  if a.height + 1 != b.height then false else verify a b

/-! ## `to_headers_range` and `Store::get_range` (store.rs) -/

def toHeadersRange (lo hi : Bound) (lastIndex : Nat) : Except Err (Nat × Nat) := do
  let start ← match lo with
    | .unbounded => pure 1
    | .included x => if x > lastIndex || x == 0 then throw Err.notFound else pure x
    | .excluded x => if x ≥ lastIndex then throw Err.notFound else pure (x + 1)
  let end_ ← match hi with
    | .unbounded => pure lastIndex
    | .included x => if x > lastIndex then throw Err.notFound else pure x
    | .excluded x =>
      if x > lastIndex + 1 then throw Err.notFound
      else if x == 0 then pure 0
      else pure (x - 1)
  pure (start, end_)

/-- the `for height in range { get_by_height(height)? }` loop; `n` heights from `start` -/
def getRangeGo (getByHeight : Nat → Except Err Hdr) : Nat → Nat → List Hdr → Except Err (List Hdr)
  | _, 0, acc => .ok acc.reverse
  | start, n + 1, acc =>
    match getByHeight start with
    | .ok h => getRangeGo getByHeight (start + 1) n (h :: acc)
    | .error e => .error e

def getRange (headHeight : Except Err Nat) (getByHeight : Nat → Except Err Hdr) (lo hi : Bound) :
    Except Err (List Hdr) := do
  let head ← headHeight
  let (s, e) ← toHeadersRange lo hi head
  getRangeGo getByHeight s (e + 1 - s) []

/-- `Result<T, StoreError>` as an observable result -/
def toRes (x : Except Err α) (f : α → Out) : Res :=
  match x with
  | .ok a => .ok (f a)
  | .error e => .err e

/-! ## InMemoryStore -/

structure MemStore where
  /-- `headers: HashMap<Hash, ExtendedHeader>` -/
  headers : AMap Hash Hdr
  /-- `height_to_hash: HashMap<u64, Hash>` -/
  heightToHash : AMap Nat Hash
  headerRanges : Ranges.Ranges
  /-- `sampling_data: HashMap<u64, SamplingMetadata>` -/
  samplingData : AMap Nat (List Cid)
  sampledRanges : Ranges.Ranges
  prunedRanges : Ranges.Ranges
deriving Repr

namespace MemStore

def new : MemStore :=
  { headers := [], heightToHash := [], headerRanges := [], samplingData := [],
    sampledRanges := [], prunedRanges := [] }

def getHeadHeight (s : MemStore) : Except Err Nat :=
  match Ranges.head s.headerRanges with
  | some h => .ok h
  | none => .error .notFound

def containsHash (s : MemStore) (q : Hash) : Bool := AMap.contains s.headers q

def getByHash (s : MemStore) (q : Hash) : Except Err Hdr :=
  match AMap.get s.headers q with
  | some h => .ok h
  | none => .error .notFound

def containsHeight (s : MemStore) (h : Nat) : Bool := Ranges.contains s.headerRanges h

def getByHeight (s : MemStore) (height : Nat) : Except Err Hdr :=
  match AMap.get s.heightToHash height with
  | none => .error .notFound
  | some q =>
    match AMap.get s.headers q with
    | some h => .ok h
    | none => .error .panic   -- .expect("inconsistent between header hash and header heights")

def getHead (s : MemStore) : Except Err Hdr := do
  let h ← s.getHeadHeight
  s.getByHeight h

/-- `get_by_height(..).map_err(|e| match e { NotFound => panic!(..), e => e })` -/
def neighbour (s : MemStore) (height : Nat) : Except Err Hdr :=
  match s.getByHeight height with
  | .ok h => .ok h
  | .error .notFound => .error .panic
  | .error e => .error e

def verifyAgainstNeighbours (verify : Hdr → Hdr → Bool) (s : MemStore)
    (lowest highest : Option Hdr) : Except Err Unit := do
  match lowest with
  | some lo =>
    let h ← pred64 lo.height
    let prev ← s.neighbour h
    if !verify prev lo then throw Err.neighborsVerificationFailed
  | none => pure ()
  match highest with
  | some hi =>
    let h ← succ64 hi.height
    let next ← s.neighbour h
    if !verify hi next then throw Err.neighborsVerificationFailed
  | none => pure ()

/-- the `for header in headers` loop of `insert`; returns the state mutated so far -/
def insertLoop : MemStore → List Hdr → MemStore × Except Err Unit
  | s, [] => (s, .ok ())
  | s, header :: rest =>
    -- debug_assert!(!self.height_to_hash.contains_key(&height))
    if AMap.contains s.heightToHash header.height then (s, .error .panic)
    else if AMap.contains s.headers header.hash then (s, .error (.hashExists header.hash))
    else
      insertLoop { s with headers := AMap.insert s.headers header.hash header,
                          heightToHash := AMap.insert s.heightToHash header.height header.hash } rest

/-- the hash pre-check of `insert` (added by the C20 fix): every hash of the batch is checked
    against the stored hashes and the earlier hashes of the batch before anything is mutated -/
def checkHashes (s : MemStore) : List Hash → List Hdr → Except Err Unit
  | _, [] => .ok ()
  | seen, header :: rest =>
    if AMap.contains s.headers header.hash || seen.contains header.hash then
      .error (.hashExists header.hash)
    else checkHashes s (header.hash :: seen) rest

/-- the part of `insert` after the checks: the mutation loop and the three range updates -/
def insertCommit (s : MemStore) (headers : List Hdr) (range : Ranges.Range) : MemStore × Except Err Unit :=
  match insertLoop s headers with
  | (s1, .error e) => (s1, .error e)
  | (s1, .ok ()) =>
    match expectR (Ranges.insertRelaxed s1.headerRanges range) with
    | .error e => (s1, .error e)
    | .ok hr =>
      let s2 := { s1 with headerRanges := hr }
      match expectR (Ranges.removeRelaxed s2.sampledRanges range) with
      | .error e => (s2, .error e)
      | .ok sr =>
        let s3 := { s2 with sampledRanges := sr }
        match expectR (Ranges.removeRelaxed s3.prunedRanges range) with
        | .error e => (s3, .error e)
        | .ok pr => ({ s3 with prunedRanges := pr }, .ok ())

/-- `InMemoryStoreInner::insert` on an already verified span.
    `precheck = false` is the code before the C20 fix (no hash pre-check). -/
def insertVerifiedWith (precheck : Bool) (verify : Hdr → Hdr → Bool) (s : MemStore) (headers : List Hdr) :
    MemStore × Except Err Unit :=
  match headers.head?, headers.getLast? with
  | some head, some tail =>
    let range : Ranges.Range := (head.height, tail.height)
    match constraints (Ranges.checkInsertionConstraints s.headerRanges range) with
    | .error e => (s, .error e)
    | .ok (prevExists, nextExists) =>
      match s.verifyAgainstNeighbours verify (if prevExists then some head else none)
              (if nextExists then some tail else none) with
      | .error e => (s, .error e)
      | .ok () =>
        match (if precheck then checkHashes s [] headers else .ok ()) with
        | .error e => (s, .error e)
        | .ok () => insertCommit s headers range
  | _, _ => (s, .ok ())

def insertVerified := insertVerifiedWith true

/-- `InMemoryStore::insert` -/
def insertWith (precheck : Bool) (verify : Hdr → Hdr → Bool) (s : MemStore) (headers : List Hdr) :
    MemStore × Except Err Unit :=
  match tryIntoVerified verify headers with
  | .error e => (s, .error e)
  | .ok hs => insertVerifiedWith precheck verify s hs

def insert := insertWith true

def updateSamplingMetadata (s : MemStore) (height : Nat) (cids : List Cid) :
    MemStore × Except Err Unit :=
  if !s.containsHeight height then (s, .error .notFound)
  else
    match AMap.get s.samplingData height with
    | none => ({ s with samplingData := AMap.insert s.samplingData height cids }, .ok ())
    | some prev =>
      ({ s with samplingData := AMap.insert s.samplingData height (appendDedup prev cids) }, .ok ())

def getSamplingMetadata (s : MemStore) (height : Nat) : Except Err (Option (List Cid)) :=
  if !s.containsHeight height then .error .notFound
  else .ok (AMap.get s.samplingData height)

def markAsSampled (s : MemStore) (height : Nat) : MemStore × Except Err Unit :=
  if !s.containsHeight height then (s, .error .notFound)
  else
    match expectR (Ranges.insertRelaxed s.sampledRanges (height, height)) with
    | .error e => (s, .error e)
    | .ok sr => ({ s with sampledRanges := sr }, .ok ())

def removeHeight (s : MemStore) (height : Nat) : MemStore × Except Err Unit :=
  if !Ranges.contains s.headerRanges height then (s, .error .notFound)
  else
    match AMap.get s.heightToHash height with
    | none => (s, .error .storedDataError)
    | some q =>
      if !AMap.contains s.headers q then (s, .error .storedDataError)
      else
        let s1 := { s with samplingData := AMap.erase s.samplingData height,
                           heightToHash := AMap.erase s.heightToHash height,
                           headers := AMap.erase s.headers q }
        match expectR (Ranges.removeRelaxed s1.headerRanges (height, height)) with
        | .error e => (s1, .error e)
        | .ok hr =>
          let s2 := { s1 with headerRanges := hr }
          match expectR (Ranges.removeRelaxed s2.sampledRanges (height, height)) with
          | .error e => (s2, .error e)
          | .ok sr =>
            let s3 := { s2 with sampledRanges := sr }
            match expectR (Ranges.insertRelaxed s3.prunedRanges (height, height)) with
            | .error e => (s3, .error e)
            | .ok pr => ({ s3 with prunedRanges := pr }, .ok ())

/-- one call of the `Store` trait on the in-memory store
    (`precheck = false`: `insert` as it was before the C20 fix) -/
def stepWith (precheck : Bool) (verify : Hdr → Hdr → Bool) (s : MemStore) : Op → MemStore × Res
  | .insert batch => let (s', r) := s.insertWith precheck verify batch; (s', toRes r (fun _ => .unit))
  | .remove h => let (s', r) := s.removeHeight h; (s', toRes r (fun _ => .unit))
  | .mark h => let (s', r) := s.markAsSampled h; (s', toRes r (fun _ => .unit))
  | .updMeta h cids => let (s', r) := s.updateSamplingMetadata h cids; (s', toRes r (fun _ => .unit))
  | .getByHeight h => (s, toRes (s.getByHeight h) .hdr)
  | .hasAt h => (s, .ok (.bool (s.containsHeight h)))
  | .getByHash q => (s, toRes (s.getByHash q) .hdr)
  | .has q => (s, .ok (.bool (s.containsHash q)))
  | .getMeta h => (s, toRes (s.getSamplingMetadata h) .md)
  | .head => (s, toRes s.getHead .hdr)
  | .headHeight => (s, toRes s.getHeadHeight .nat)
  | .getRange lo hi => (s, toRes (getRange s.getHeadHeight s.getByHeight lo hi) .hdrs)
  | .storedRanges => (s, .ok (.ranges s.headerRanges))
  | .sampledRanges => (s, .ok (.ranges s.sampledRanges))
  | .prunedRanges => (s, .ok (.ranges s.prunedRanges))

def step := stepWith true

end MemStore

/-! ## RedbStore -/

inductive RKey where
  | header   -- KEY.HEADER_RANGES
  | sampled  -- KEY.SAMPLED_RANGES
  | pruned   -- KEY.PRUNED_RANGES
deriving DecidableEq, Repr

/-- the tables of the database (schema v3) the store operations touch -/
structure Tables where
  /-- `HEIGHTS_TABLE: &[u8] (hash) → u64` -/
  heights : AMap Hash Nat
  /-- `HEADERS_TABLE: u64 → &[u8] (encoded header)` -/
  headers : AMap Nat Hdr
  /-- `SAMPLING_METADATA_TABLE: u64 → &[u8]` -/
  samplingMetadata : AMap Nat (List Cid)
  /-- `RANGES_TABLE: &str → Vec<(u64, u64)>` -/
  ranges : AMap RKey (List Ranges.Range)
deriving Repr

namespace RedbStore

/-- state after `RedbStore::new` on a fresh database: all tables created and empty -/
def new : Tables := { heights := [], headers := [], samplingMetadata := [], ranges := [] }

/-- HYPOTHESIS (redb): a write transaction is atomic.  If the closure returns `Err` the
    transaction is aborted and the tables are unchanged; otherwise it is committed entirely. -/
def writeTx (f : Tables → Except Err (Tables × α)) (t : Tables) : Tables × Except Err α :=
  match f t with
  | .ok (t', a) => (t', .ok a)
  | .error e => (t, .error e)

/-- a read transaction sees the committed tables -/
def readTx (f : Tables → Except Err α) (t : Tables) : Except Err α := f t

/-- `get_ranges` -/
def getRanges (t : Tables) (k : RKey) : Except Err Ranges.Ranges :=
  let raw := (AMap.get t.ranges k).getD []
  match Ranges.fromVec raw with
  | .ok r => .ok r
  | .error _ => .error .storedDataError

/-- `set_ranges` -/
def setRanges (t : Tables) (k : RKey) (r : Ranges.Ranges) : Tables :=
  { t with ranges := AMap.insert t.ranges k r }

/-- `get_height` -/
def getHeight (t : Tables) (q : Hash) : Except Err Nat :=
  match AMap.get t.heights q with
  | some h => .ok h
  | none => .error .notFound

/-- `deserialize_extended_header` / `ExtendedHeader::decode`: decoding VALIDATES the header
    (`TryFrom<RawExtendedHeader>` ends with `eh.validate()?`), so a stored header that was not
    valid cannot be read back -/
def decodeHeader (h : Hdr) : Except Err Hdr :=
  if h.valid then .ok h else .error .storedDataError

/-- `get_header` -/
def getHeader (t : Tables) (height : Nat) : Except Err Hdr :=
  match AMap.get t.headers height with
  | some h => decodeHeader h
  | none => .error .notFound

def headHeight (t : Tables) : Except Err Nat := do
  let hr ← getRanges t .header
  match Ranges.head hr with
  | some h => pure h
  | none => throw Err.notFound

def getByHash (t : Tables) (q : Hash) : Except Err Hdr := do
  let height ← getHeight t q
  getHeader t height

def getByHeight (t : Tables) (height : Nat) : Except Err Hdr := getHeader t height

def getHead (t : Tables) : Except Err Hdr := do
  let hr ← getRanges t .header
  match Ranges.head hr with
  | some h => getHeader t h
  | none => throw Err.notFound

/-- `contains_hash`: `.unwrap_or(false)` -/
def containsHash (t : Tables) (q : Hash) : Bool :=
  match getHeight t q with
  | .ok height => AMap.contains t.headers height
  | .error _ => false

def containsHeight (t : Tables) (height : Nat) : Bool := AMap.contains t.headers height

/-- `get_header(..).map_err(NotFound ↦ StoredDataError)` -/
def neighbour (t : Tables) (height : Nat) : Except Err Hdr :=
  match getHeader t height with
  | .ok h => .ok h
  | .error .notFound => .error .storedDataError
  | .error e => .error e

def verifyAgainstNeighbours (verify : Hdr → Hdr → Bool) (t : Tables)
    (lowest highest : Option Hdr) : Except Err Unit := do
  match lowest with
  | some lo =>
    let h ← pred64 lo.height
    let prev ← neighbour t h
    if !verify prev lo then throw Err.neighborsVerificationFailed
  | none => pure ()
  match highest with
  | some hi =>
    let h ← succ64 hi.height
    let next ← neighbour t h
    if !verify hi next then throw Err.neighborsVerificationFailed
  | none => pure ()

/-- the `for header in headers` loop inside the insert transaction -/
def insertLoop : Tables → List Hdr → Except Err Tables
  | t, [] => .ok t
  | t, header :: rest =>
    if AMap.contains t.headers header.height then .error .storedDataError
    else
      let t1 := { t with headers := AMap.insert t.headers header.height header }
      if AMap.contains t1.heights header.hash then .error (.hashExists header.hash)
      else insertLoop { t1 with heights := AMap.insert t1.heights header.hash header.height } rest

/-- closure of the write transaction of `insert` -/
def insertTx (verify : Hdr → Hdr → Bool) (headers : List Hdr) (t : Tables) :
    Except Err (Tables × Unit) :=
  match headers.head?, headers.getLast? with
  | some head, some tail => do
    let headerRanges ← getRanges t .header
    let sampledRanges ← getRanges t .sampled
    let prunedRanges ← getRanges t .pruned
    let range : Ranges.Range := (head.height, tail.height)
    let (prevExists, nextExists) ← constraints (Ranges.checkInsertionConstraints headerRanges range)
    verifyAgainstNeighbours verify t (if prevExists then some head else none)
      (if nextExists then some tail else none)
    let t1 ← insertLoop t headers
    let hr ← expectR (Ranges.insertRelaxed headerRanges range)
    let sr ← expectR (Ranges.removeRelaxed sampledRanges range)
    let pr ← expectR (Ranges.removeRelaxed prunedRanges range)
    pure (setRanges (setRanges (setRanges t1 .header hr) .sampled sr) .pruned pr, ())
  | _, _ => .ok (t, ())

def insert (verify : Hdr → Hdr → Bool) (t : Tables) (headers : List Hdr) : Tables × Except Err Unit :=
  match tryIntoVerified verify headers with
  | .error e => (t, .error e)
  | .ok hs => writeTx (insertTx verify hs) t

def updateSamplingMetadataTx (height : Nat) (cids : List Cid) (t : Tables) :
    Except Err (Tables × Unit) := do
  let headerRanges ← getRanges t .header
  if !Ranges.contains headerRanges height then throw Err.notFound
  let entry := match AMap.get t.samplingMetadata height with
    | some previous => appendDedup previous cids
    | none => cids
  pure ({ t with samplingMetadata := AMap.insert t.samplingMetadata height entry }, ())

def markAsSampledTx (height : Nat) (t : Tables) : Except Err (Tables × Unit) := do
  let headerRanges ← getRanges t .header
  let sampledRanges ← getRanges t .sampled
  if !Ranges.contains headerRanges height then throw Err.notFound
  let sr ← expectR (Ranges.insertRelaxed sampledRanges (height, height))
  pure (setRanges t .sampled sr, ())

def getSamplingMetadata (t : Tables) (height : Nat) : Except Err (Option (List Cid)) :=
  if !AMap.contains t.headers height then .error .notFound
  else .ok (AMap.get t.samplingMetadata height)

def removeHeightTx (height : Nat) (t : Tables) : Except Err (Tables × Unit) := do
  let headerRanges ← getRanges t .header
  let sampledRanges ← getRanges t .sampled
  let prunedRanges ← getRanges t .pruned
  if !Ranges.contains headerRanges height then throw Err.notFound
  match AMap.get t.headers height with
  | none => throw Err.storedDataError
  | some stored =>
    let t1 := { t with headers := AMap.erase t.headers height }
    let header ← decodeHeader stored
    if !AMap.contains t1.heights header.hash then throw Err.storedDataError
    let t2 := { t1 with heights := AMap.erase t1.heights header.hash }
    let t3 := { t2 with samplingMetadata := AMap.erase t2.samplingMetadata height }
    let hr ← expectR (Ranges.removeRelaxed headerRanges (height, height))
    let sr ← expectR (Ranges.removeRelaxed sampledRanges (height, height))
    let pr ← expectR (Ranges.insertRelaxed prunedRanges (height, height))
    pure (setRanges (setRanges (setRanges t3 .header hr) .sampled sr) .pruned pr, ())

/-- one call of the `Store` trait on the redb store -/
def step (verify : Hdr → Hdr → Bool) (t : Tables) : Op → Tables × Res
  | .insert batch => let (t', r) := insert verify t batch; (t', toRes r (fun _ => .unit))
  | .remove h => let (t', r) := writeTx (removeHeightTx h) t; (t', toRes r (fun _ => .unit))
  | .mark h => let (t', r) := writeTx (markAsSampledTx h) t; (t', toRes r (fun _ => .unit))
  | .updMeta h cids => let (t', r) := writeTx (updateSamplingMetadataTx h cids) t; (t', toRes r (fun _ => .unit))
  | .getByHeight h => (t, toRes (readTx (getByHeight · h) t) .hdr)
  | .hasAt h => (t, .ok (.bool (containsHeight t h)))
  | .getByHash q => (t, toRes (readTx (getByHash · q) t) .hdr)
  | .has q => (t, .ok (.bool (containsHash t q)))
  | .getMeta h => (t, toRes (readTx (getSamplingMetadata · h) t) .md)
  | .head => (t, toRes (readTx getHead t) .hdr)
  | .headHeight => (t, toRes (readTx headHeight t) .nat)
  | .getRange lo hi => (t, toRes (getRange (headHeight t) (getByHeight t) lo hi) .hdrs)
  | .storedRanges => (t, toRes (readTx (getRanges · .header) t) .ranges)
  | .sampledRanges => (t, toRes (readTx (getRanges · .sampled) t) .ranges)
  | .prunedRanges => (t, toRes (readTx (getRanges · .pruned) t) .ranges)

/-! ### `RedbStore::write_tx` as it is written

`writeTx` above is the SUMMARY of a write transaction (all or nothing).  Below is the code of
`write_tx` itself: begin a transaction, run the closure on it, commit only if the closure
returned `Ok`, abort otherwise.  The redb contract is the hypothesis carried by `WriteTxn`:
a transaction works on a private copy; `commit` publishes it, `abort` discards it.  A closure that
fails may already have written to the copy (the insert loop writes headers before it meets a
repeated hash): what it leaves behind is `dirty`, arbitrary.  `writeTxL_eq_writeTx`
(Proofs/StoreRedb.lean) shows that lumina's code realises the summary, whatever `dirty` is. -/

/-- a redb write transaction: the committed tables and the private working copy -/
structure WriteTxn where
  committed : Tables
  working : Tables

/-- `db.begin_write()` -/
def beginWrite (t : Tables) : WriteTxn := { committed := t, working := t }
/-- `tx.commit()`: the working copy becomes the committed state (redb contract) -/
def WriteTxn.commit (tx : WriteTxn) : Tables := tx.working
/-- `tx.abort()`: the working copy is discarded (redb contract) -/
def WriteTxn.abort (tx : WriteTxn) : Tables := tx.committed

/-- `let res = f(&mut tx)`: the closure works on the copy; when it fails the copy holds whatever
    it wrote before failing (`dirty`) -/
def WriteTxn.run (tx : WriteTxn) (f : Tables → Except Err (Tables × α)) (dirty : Tables → Tables) :
    WriteTxn × Except Err α :=
  match f tx.working with
  | .ok (w, a) => ({ tx with working := w }, .ok a)
  | .error e => ({ tx with working := dirty tx.working }, .error e)

/-- `RedbStore::write_tx`:
    `let mut tx = begin_write()?; let res = f(&mut tx); if res.is_ok() { tx.commit()? } else { tx.abort()? }; res` -/
def writeTxL (dirty : Tables → Tables) (f : Tables → Except Err (Tables × α)) (t : Tables) :
    Tables × Except Err α :=
  let (tx, res) := (beginWrite t).run f dirty
  match res with
  | .ok a => (tx.commit, .ok a)
  | .error e => (tx.abort, .error e)

def insertL (dirty : Tables → Tables) (verify : Hdr → Hdr → Bool) (t : Tables) (headers : List Hdr) :
    Tables × Except Err Unit :=
  match tryIntoVerified verify headers with
  | .error e => (t, .error e)
  | .ok hs => writeTxL dirty (insertTx verify hs) t

/-- `step` with every write transaction spelled out as in `write_tx` -/
def stepL (dirty : Tables → Tables) (verify : Hdr → Hdr → Bool) (t : Tables) : Op → Tables × Res
  | .insert batch => let (t', r) := insertL dirty verify t batch; (t', toRes r (fun _ => .unit))
  | .remove h => let (t', r) := writeTxL dirty (removeHeightTx h) t; (t', toRes r (fun _ => .unit))
  | .mark h => let (t', r) := writeTxL dirty (markAsSampledTx h) t; (t', toRes r (fun _ => .unit))
  | .updMeta h cids => let (t', r) := writeTxL dirty (updateSamplingMetadataTx h cids) t; (t', toRes r (fun _ => .unit))
  | op => step verify t op

end RedbStore

/-! ## histories -/

/-- run a history; returns the final state and every result, in order -/
def runOps {σ : Type} (step : σ → Op → σ × Res) : σ → List Op → σ × List Res
  | s, [] => (s, [])
  | s, op :: rest =>
    let (s1, r) := step s op
    let (s2, rs) := runOps step s1 rest
    (s2, r :: rs)

end Lumina.Model.Store

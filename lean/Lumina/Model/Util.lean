/-
  Import-free helpers shared by models and drivers: hex <-> bytes, number parsing,
  key=value argument parsing for the line protocol.  No Mathlib, no Std imports, so
  every driver that imports this links as a `lean_exe`.
-/
namespace Lumina.Util

abbrev Bytes := List UInt8

def hexDigit (n : Nat) : Char :=
  if n < 10 then Char.ofNat (48 + n) else Char.ofNat (87 + n)

def hexOfByte (b : UInt8) : List Char :=
  [hexDigit (b.toNat / 16), hexDigit (b.toNat % 16)]

def toHex (bs : Bytes) : String :=
  String.ofList (bs.flatMap hexOfByte)

def hexVal (c : Char) : Option Nat :=
  if '0' ≤ c ∧ c ≤ '9' then some (c.toNat - 48)
  else if 'a' ≤ c ∧ c ≤ 'f' then some (c.toNat - 87)
  else if 'A' ≤ c ∧ c ≤ 'F' then some (c.toNat - 55)
  else none

def fromHexChars : List Char → Option Bytes
  | [] => some []
  | [_] => none
  | a :: b :: rest =>
    match hexVal a, hexVal b, fromHexChars rest with
    | some x, some y, some r => some (UInt8.ofNat (x * 16 + y) :: r)
    | _, _, _ => none

/-- `"-"` denotes the empty byte string on the wire (so that every field is non-empty). -/
def fromHex (s : String) : Option Bytes :=
  if s == "-" then some [] else fromHexChars s.toList

def toHexOrDash (bs : Bytes) : String :=
  if bs.isEmpty then "-" else toHex bs

/-- words of a line, split on single spaces, empty words dropped -/
def words (line : String) : List String :=
  (line.splitOn " ").filter (fun w => !w.isEmpty)

/-- split a word at its FIRST `=` -/
def splitKV (w : String) : Option (String × String) :=
  let cs := w.toList
  let k := cs.takeWhile (fun c => c != '=')
  match cs.dropWhile (fun c => c != '=') with
  | [] => none
  | _ :: v => some (String.ofList k, String.ofList v)

/-- look up `key=value` among words (the value may itself contain `=`) -/
def arg? (ws : List String) (key : String) : Option String :=
  match ws with
  | [] => none
  | w :: rest =>
    match splitKV w with
    | some (k, v) => if k == key then some v else arg? rest key
    | none => arg? rest key

def natArg? (ws : List String) (key : String) : Option Nat :=
  (arg? ws key).bind String.toNat?

def hexArg? (ws : List String) (key : String) : Option Bytes :=
  (arg? ws key).bind fromHex

/-- comma separated list of hex strings; `-` = empty list, `_` items = empty byte strings -/
def hexListArg? (ws : List String) (key : String) : Option (List Bytes) :=
  match arg? ws key with
  | none => none
  | some s =>
    if s == "-" then some []
    else (s.splitOn ",").mapM (fun t => if t == "_" then some [] else fromHexChars t.toList)

def natListArg? (ws : List String) (key : String) : Option (List Nat) :=
  match arg? ws key with
  | none => none
  | some s =>
    if s == "-" then some []
    else (s.splitOn ",").mapM String.toNat?

def showNatList (l : List Nat) : String :=
  if l.isEmpty then "-" else ",".intercalate (l.map toString)

def showHexList (l : List Bytes) : String :=
  if l.isEmpty then "-" else ",".intercalate (l.map (fun b => if b.isEmpty then "_" else toHex b))

end Lumina.Util

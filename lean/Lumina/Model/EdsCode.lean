/-
  Construction side of the extended data square (`types/src/eds.rs`, `types/src/share.rs`):

    ExtendedDataSquare::new        -> `edsNew`      (all validation, in the code's order)
    ExtendedDataSquare::from_ods   -> `fromOds`     (three encoding passes, then `new`)
    Share::from_raw / parity / validate
    leopard_codec::encode          -> its ARGUMENT CHECKS are transcribed (`leopardEncodeErr`);
                                      the parity computation itself is the parameter `enc`
    leopard_codec::reconstruct     -> argument checks transcribed (`leopardReconstructErr`);
                                      the reconstruction itself is the parameter `rec`

  The Reed–Solomon arithmetic (GF(2^8) FFT of leopard) is NOT modelled: `enc : k data shards ↦ k parity
  shards`.  Theorems that need algebraic facts about it (linearity, MDS) take them as hypotheses.

  Owner: group D2 (C07–C10).  Import-free apart from `Lumina.Model.*`.
-/
import Lumina.Model.Eds
import Lumina.Model.Namespace

namespace Lumina.Model.EdsCode
open Lumina.Util Lumina.Model.Nmt Lumina.Model.Eds

/-- error kinds of `celestia_types::Error` that `new` / `from_ods` can return -/
inductive EdsErr where
  /-- `Error::Validation` (`bail_validation!`): too few / too many shares, axis not sorted by namespace -/
  | validation
  /-- `Error::EdsInvalidDimentions` -/
  | invalidDimensions
  /-- `Error::InvalidShareSize` -/
  | invalidShareSize
  /-- namespace errors of `Namespace::from_raw` on a quadrant-0 share -/
  | namespace (e : Namespace.Err)
  /-- `Error::UnsupportedShareVersion` -/
  | unsupportedShareVersion
  /-- `Error::LeopardCodec` -/
  | leopard
  deriving DecidableEq, Repr, Inhabited

def EdsErr.kind : EdsErr → String
  | .validation => "Validation"
  | .invalidDimensions => "EdsInvalidDimentions"
  | .invalidShareSize => "InvalidShareSize"
  | .namespace e => e.kind
  | .unsupportedShareVersion => "UnsupportedShareVersion"
  | .leopard => "LeopardCodec"

/-! ## constants (tied to /repo by `Gen.Cxx` equalities in the Props files) -/

/-- `appconsts::square_size_upper_bound(app_version)`: 128 up to v5, 512 from v6 -/
def squareSizeUpperBound (ver : Nat) : Nat := if ver ≤ 5 then 128 else 512

/-- `max_extended_square_width(app_version)` -/
def maxExtendedSquareWidth (ver : Nat) : Nat := squareSizeUpperBound ver * 2

/-- `MIN_EXTENDED_SQUARE_WIDTH` = `MIN_SQUARE_SIZE * 2` -/
def MIN_EXTENDED_SQUARE_WIDTH : Nat := 2

/-- `appconsts::SHARE_VERSION_ONE` -/
def SHARE_VERSION_ONE : Nat := 1

/-- leopard `ORDER` (GF(2^8)): the maximal number of shards -/
def LEOPARD_ORDER : Nat := 256

/-! ## integer helpers -/

def sqrtAux (n : Nat) : Nat → Nat
  | 0 => 0
  | m + 1 => if (m + 1) * (m + 1) ≤ n then m + 1 else sqrtAux n m

/-- `f64::sqrt(n as f64) as usize`: the integer square root (exact below 2^52; lengths here are far below) -/
def isqrt (n : Nat) : Nat := sqrtAux n n

def isPow2Aux : Nat → Nat → Bool
  | 0, _ => false
  | fuel + 1, n => if n = 1 then true else if n = 0 ∨ n % 2 = 1 then false else isPow2Aux fuel (n / 2)

/-- `square_width.count_ones() == 1` -/
def isPow2 (n : Nat) : Bool := isPow2Aux n n

/-! ## shares -/

/-- `Share::from_raw`: 512 bytes, a valid namespace; the info-byte check (`byte >> 1 > 127`) cannot fail -/
def shareFromRaw (data : Bytes) : Except EdsErr Share :=
  if data.length ≠ SHARE_SIZE then .error .invalidShareSize
  else
    match Namespace.fromRaw (data.take NS_SIZE) with
    | .error e => .error (.namespace e)
    | .ok _ => .ok ⟨data, false⟩

/-- `Share::parity` -/
def shareParity (data : Bytes) : Except EdsErr Share :=
  if data.length ≠ SHARE_SIZE then .error .invalidShareSize else .ok ⟨data, true⟩

/-- `Share::validate(app_version)`: share version 1 needs app version ≥ 3 -/
def shareValidate (ver : Nat) (s : Share) : Except EdsErr Unit :=
  if !s.isParity && (s.data.getD NS_SIZE 0).toNat / 2 = SHARE_VERSION_ONE && ver < 3 then
    .error .unsupportedShareVersion
  else .ok ()

/-! ## `ExtendedDataSquare::new` -/

/-- the closure `check_share(row, col, prev_ns, axis)` of `new` -/
def checkShare (ver w : Nat) (shares : List Bytes) (row col : Nat) (prev : Option Bytes) : Except EdsErr Share :=
  let d := shares.getD (row * w + col) []
  match (if isOdsSquare row col w then shareFromRaw d else shareParity d) with
  | .error e => .error e
  | .ok sh =>
    match shareValidate ver sh with
    | .error e => .error e
    | .ok () =>
      match prev with
      | some p => if ltB sh.ns p then .error .validation else .ok sh
      | none => .ok sh

/-- one inner loop of `new`: walk the coordinates of one axis, threading `prev_ns` -/
def checkLine (ver w : Nat) (shares : List Bytes) : List (Nat × Nat) → Option Bytes → Except EdsErr (List Share)
  | [], _ => .ok []
  | (r, c) :: rest, prev =>
    match checkShare ver w shares r c prev with
    | .error e => .error e
    | .ok sh =>
      match checkLine ver w shares rest (some sh.ns) with
      | .error e => .error e
      | .ok l => .ok (sh :: l)

/-- an outer loop of `new`: all lines `0..w` of one direction, first error wins -/
def checkLines (ver w : Nat) (shares : List Bytes) (ax : Axis) : List Nat → Except EdsErr (List Share)
  | [] => .ok []
  | i :: rest =>
    match checkLine ver w shares ((List.range w).map (fun j => axisCoord ax i j)) none with
    | .error e => .error e
    | .ok l =>
      match checkLines ver w shares ax rest with
      | .error e => .error e
      | .ok ls => .ok (l ++ ls)

/-- `ExtendedDataSquare::new(shares, codec, app_version)` -/
def edsNew (ver : Nat) (shares : List Bytes) : Except EdsErr Eds :=
  let maxW := maxExtendedSquareWidth ver
  if shares.length < MIN_EXTENDED_SQUARE_WIDTH * MIN_EXTENDED_SQUARE_WIDTH then .error .validation
  else if shares.length > maxW * maxW then .error .validation
  else
    let w := isqrt shares.length
    if w * w ≠ shares.length then .error .invalidDimensions
    else if w > 65535 then .error .invalidDimensions
    else if !isPow2 w then .error .invalidDimensions
    else
      -- columns first (result discarded), then rows (collected)
      match checkLines ver w shares .col (List.range w) with
      | .error e => .error e
      | .ok _ =>
        match checkLines ver w shares .row (List.range w) with
        | .error e => .error e
        | .ok sq => .ok ⟨w, sq⟩

/-! ## leopard argument checks -/

/-- `leopard_codec::ceil_pow2` for `x ≥ 1` -/
def ceilPow2 (x : Nat) : Nat := nextPowerOfTwo x

/-- `leopard_codec::shard_size`: length of the first non-empty shard, 0 when there is none -/
def shardSize (shards : List Bytes) : Nat :=
  match shards.find? (fun s => !s.isEmpty) with
  | some s => s.length
  | none => 0

/-- `leopard_codec::encode(shards, data_shards)` up to (not including) `encode_inner`: `true` = `Err(_)`.
    Precondition of the Rust code (else a usize underflow): `data_shards ≤ shards.len()`. -/
def leopardEncodeErr (shards : List Bytes) (dataShards : Nat) : Bool :=
  if shards.length > LEOPARD_ORDER then true
  else
    let parity := shards.length - dataShards
    if parity > dataShards then true
    else
      let m := ceilPow2 parity
      let lastCount := dataShards % m
      let overflow := if m ≥ dataShards ∨ lastCount = 0 then false else (dataShards / m + 1) * m + 1 > 255
      if overflow then true
      else
        let size := shardSize shards
        if size = 0 then true                                    -- EmptyShards
        else if shards.any (fun s => s.length ≠ size) then true  -- UnequalShardsLengths
        else size % 64 ≠ 0                                       -- InvalidShardSize

/-- outcome of the argument checks of `leopard_codec::reconstruct(shards, data_shards)` -/
inductive RecPre where
  /-- `Err(_)` -/
  | err
  /-- every shard present: `Ok(())`, nothing touched -/
  | allPresent
  /-- `reconstruct_inner` runs -/
  | run
  deriving DecidableEq, Repr, Inhabited

/-- `leopard_codec::reconstruct(shards, data_shards)` up to (not including) `reconstruct_inner` -/
def leopardReconstructPre (shards : List Bytes) (dataShards : Nat) : RecPre :=
  if shards.length > LEOPARD_ORDER then .err
  else
    let parity := shards.length - dataShards
    if parity > dataShards then .err
    else
      let size := shardSize shards
      if size ≠ 0 ∧ shards.any (fun s => !s.isEmpty && s.length ≠ size) then .err   -- UnequalShardsLengths
      else
        let present := (shards.filter (fun s => !s.isEmpty)).length
        if present = shards.length then .allPresent
        else if present < dataShards then .err                    -- TooFewShards
        else if size % 64 ≠ 0 then .err                           -- InvalidShardSize
        else .run

/-! ## `ExtendedDataSquare::from_ods` -/

/-- the 512 zero bytes that `from_ods` puts where parity will be written -/
def zeroShare : Bytes := List.replicate SHARE_SIZE 0

/-- rows of the row-major `k × k` square -/
def sqRows (k : Nat) (sq : List Bytes) : List (List Bytes) :=
  (List.range k).map (fun r => (sq.drop (r * k)).take k)

/-- columns of the row-major `k × k` square -/
def sqCols (k : Nat) (sq : List Bytes) : List (List Bytes) :=
  (List.range k).map (fun c => (List.range k).map (fun r => sq.getD (r * k + c) []))

/-- quadrant 2 (below the ODS), row-major: column `c` of it is `enc (column c of the ODS)` -/
def q2Rows (enc : List Bytes → List Bytes) (k : Nat) (ods : List Bytes) : List (List Bytes) :=
  let q2Cols := (sqCols k ods).map enc
  (List.range k).map (fun r => q2Cols.map (fun colv => colv.getD r []))

/-- does one of the `3k` calls of `leopard_codec::encode` in `from_ods` return an error?  Each call sees
    `k` data shards followed by the `k` zero shares (pass 2: the column of the half-filled square). -/
def fromOdsLeopardErr (enc : List Bytes → List Bytes) (k : Nat) (ods : List Bytes) : Bool :=
  let pad := List.replicate k zeroShare
  (sqRows k ods).any (fun row => leopardEncodeErr (row ++ pad) k)
    || (sqCols k ods).any (fun col => leopardEncodeErr (col ++ pad) k)
    || (q2Rows enc k ods).any (fun row => leopardEncodeErr (row ++ pad) k)

/-- `ExtendedDataSquare::from_ods(ods_shares, app_version)`; the extension itself is group D's
    `Eds.extendRaw` (Q1 = enc of Q0 rows, Q2 = enc of Q0 columns, Q3 = enc of Q2 rows).  For the empty square
    (`ods_width == 0`, since the `fix:` commit bcfb373) nothing is encoded and `new(vec![])` rejects: that is what the
    general formula below gives for `k = 0` (no encoder call, `extendRaw` of nothing is `[]`). -/
def fromOds (enc : List Bytes → List Bytes) (ver : Nat) (ods : List Bytes) : Except EdsErr Eds :=
  let k := isqrt ods.length
  if k * k ≠ ods.length then .error .invalidDimensions
  else if fromOdsLeopardErr enc k ods then .error .leopard
  else edsNew ver (extendRaw enc k ods)

/-- `from_ods` BEFORE the `fix:` commit bcfb373: for the empty original square `eds_shares.chunks_mut(0)` panics
    ("chunk size must be non-zero"); `none` = that panic -/
def fromOdsUnfixed (enc : List Bytes → List Bytes) (ver : Nat) (ods : List Bytes) : Option (Except EdsErr Eds) :=
  if isqrt ods.length * isqrt ods.length = ods.length ∧ isqrt ods.length = 0 then none
  else some (fromOds enc ver ods)

end Lumina.Model.EdsCode

/-
  Extended data square (EDS) and data availability header (DAH) of lumina
  (`types/src/eds.rs`, `types/src/share.rs`, `types/src/data_availability_header.rs`).

  The square is a row-major list of shares with its width.  A share carries, as in Rust
  (`Share { data, is_parity }`), the flag that decides its namespace: the first 29 bytes of the data for
  original-data-square (quadrant 0) shares, `Namespace::PARITY_SHARE` (29 × 0xff) for the other three
  quadrants.  The Reed–Solomon codec is NOT modelled: functions that need it take `enc` as a parameter.

  Owner: group D.  Other agents: import, do not edit; additions only.
-/
import Lumina.Model.Nmt

namespace Lumina.Model.Eds
open Lumina.Util Lumina.Model.Nmt

/-- `appconsts::SHARE_SIZE` -/
def SHARE_SIZE : Nat := 512

/-- `Namespace::PARITY_SHARE` = `const_v255(0xff)` = 29 × 0xff = nmt-rs `NamespaceId::MAX_ID` -/
def parityNs : Bytes := maxNsId

/-- `celestia_types::Share` -/
structure Share where
  data : Bytes
  isParity : Bool
  deriving DecidableEq, Repr, Inhabited

/-- `Share::namespace` -/
def Share.ns (s : Share) : Bytes := if s.isParity then parityNs else s.data.take NS_SIZE

/-- the `(namespace, data)` pair that `push_leaf(share.as_ref(), *share.namespace())` inserts -/
def Share.leaf (s : Share) : Bytes × Bytes := (s.ns, s.data)

/-- the NMT leaf hash of a share: `hash_leaf_with_namespace(share.data, share.namespace())` -/
def Share.leafHash (H : HashFn) (s : Share) : NsHash := hashLeaf H s.ns s.data

/-- `eds::is_ods_square(row, column, square_width)` -/
def isOdsSquare (row col width : Nat) : Bool := row < width / 2 && col < width / 2

/-- quadrant number of a coordinate: 0 = original data, 1 = right of it, 2 = below it, 3 = diagonal -/
def quadrant (row col width : Nat) : Nat :=
  (if row < width / 2 then 0 else 2) + (if col < width / 2 then 0 else 1)

/-- `AxisType` -/
inductive Axis where
  | row
  | col
  deriving DecidableEq, Repr, Inhabited

/-- `ExtendedDataSquare { data_square, square_width }` (the codec string is irrelevant here) -/
structure Eds where
  width : Nat
  shares : List Share
  deriving DecidableEq, Repr, Inhabited

/-- the square with the parity flag of every share set from its quadrant, from the raw row-major
    share bytes (what `ExtendedDataSquare::new` builds once its validation has passed) -/
def Eds.ofRaw (width : Nat) (raw : List Bytes) : Eds :=
  { width := width
    shares := (List.range raw.length).zipWith
      (fun i d => { data := d, isParity := !isOdsSquare (i / width) (i % width) width }) raw }

/-- structural validity: `width²` shares, each with the quadrant's parity flag.  (`ExtendedDataSquare::new`
    additionally validates size bounds, power-of-two width, share sizes, namespaces and sortedness.) -/
def Eds.Shaped (e : Eds) : Prop :=
  e.shares.length = e.width * e.width ∧
  ∀ i, (h : i < e.shares.length) → (e.shares[i]).isParity = !isOdsSquare (i / e.width) (i % e.width) e.width

/-- `ExtendedDataSquare::share(row, column)`: `data_square.get(row * width + column)` — note that the Rust
    code does NOT check `column < width` -/
def Eds.share? (e : Eds) (row col : Nat) : Option Share := e.shares[row * e.width + col]?

/-- `iter.collect::<Option<Vec<_>>>()`: all elements, or `none` if one is missing -/
def optAll {α} : List (Option α) → Option (List α)
  | [] => some []
  | none :: _ => none
  | some x :: rest =>
    match optAll rest with
    | none => none
    | some xs => some (x :: xs)

/-- `iter.collect::<Result<Vec<_>, _>>()`: all elements, or the first error -/
def exceptAll {ε α} : List (Except ε α) → Except ε (List α)
  | [] => .ok []
  | .error e :: _ => .error e
  | .ok x :: rest =>
    match exceptAll rest with
    | .error e => .error e
    | .ok xs => .ok (x :: xs)

/-- coordinate of the `i`-th share of an axis -/
def axisCoord (ax : Axis) (index i : Nat) : Nat × Nat :=
  match ax with
  | .row => (index, i)
  | .col => (i, index)

/-- `ExtendedDataSquare::axis(axis, index)`: `none` = `EdsIndexOutOfRange` -/
def Eds.axis? (e : Eds) (ax : Axis) (index : Nat) : Option (List Share) :=
  optAll ((List.range e.width).map (fun i => e.share? (axisCoord ax index i).1 (axisCoord ax index i).2))

def Eds.row? (e : Eds) (i : Nat) : Option (List Share) := e.axis? .row i
def Eds.col? (e : Eds) (i : Nat) : Option (List Share) := e.axis? .col i

/-- outcome of building an axis tree -/
inductive AxisErr where
  /-- `Error::EdsIndexOutOfRange` -/
  | indexOutOfRange
  /-- `Error::Nmt("Leaves' namespaces should be inserted in ascending order")` -/
  | unordered
  /-- nmt-rs panicked -/
  | panic
  deriving DecidableEq, Repr, Inhabited

/-- `ExtendedDataSquare::axis_nmt(axis, index)`: the leaf hashes of the axis tree -/
def Eds.axisLeafHashes (H : HashFn) (e : Eds) (ax : Axis) (index : Nat) : Except AxisErr (List NsHash) :=
  match e.axis? ax index with
  | none => .error .indexOutOfRange
  | some shares =>
    match pushLeaves H (shares.map Share.leaf) with
    | none => .error .unordered
    | some hs => .ok hs

/-- `axis_nmt(axis, index)?.root()` (hasher with `ignore_max_ns = true`, `NmtExt::default`) -/
def Eds.axisRoot (H : HashFn) (e : Eds) (ax : Axis) (index : Nat) : Except AxisErr NsHash :=
  match e.axisLeafHashes H ax index with
  | .error er => .error er
  | .ok hs =>
    match computeRoot H true hs with
    | .ok r => .ok r
    | .error _ => .error .panic

def Eds.rowRoot (H : HashFn) (e : Eds) (i : Nat) : Except AxisErr NsHash := e.axisRoot H .row i
def Eds.colRoot (H : HashFn) (e : Eds) (i : Nat) : Except AxisErr NsHash := e.axisRoot H .col i

/-- `DataAvailabilityHeader { row_roots, column_roots }` -/
structure Dah where
  rowRoots : List NsHash
  colRoots : List NsHash
  deriving DecidableEq, Repr, Inhabited

/-- `DataAvailabilityHeader::row_root` / `column_root` / `root(axis, index)` -/
def Dah.rowRoot? (d : Dah) (i : Nat) : Option NsHash := d.rowRoots[i]?
def Dah.colRoot? (d : Dah) (i : Nat) : Option NsHash := d.colRoots[i]?
def Dah.root? (d : Dah) (ax : Axis) (i : Nat) : Option NsHash :=
  match ax with
  | .row => d.rowRoot? i
  | .col => d.colRoot? i

/-- `DataAvailabilityHeader::square_width` (`row_roots.len()`) -/
def Dah.squareWidth (d : Dah) : Nat := d.rowRoots.length

/-- `DataAvailabilityHeader::row_contains(row, ns)`: `none` = `Error::IndexOutOfRange` -/
def Dah.rowContains? (H : HashFn) (d : Dah) (row : Nat) (ns : Bytes) : Option Bool :=
  (d.rowRoot? row).map (fun r => r.contains H ns)

/-- `DataAvailabilityHeader::from_eds`: `.error` = the `expect("EDS validated on construction")` panic -/
def Dah.ofEds (H : HashFn) (e : Eds) : Except AxisErr Dah :=
  match exceptAll ((List.range e.width).map (fun i => e.rowRoot H i)),
        exceptAll ((List.range e.width).map (fun i => e.colRoot H i)) with
  | .ok rs, .ok cs => .ok ⟨rs, cs⟩
  | .error er, _ => .error er
  | _, .error er => .error er

/-- all row roots ‖ all column roots as 90-byte strings: the leaves of the DAH merkle tree
    (`DataAvailabilityHeader::hash` = tendermint `simple_hash_from_byte_vectors` over these) -/
def Dah.allRootsBytes (d : Dah) : List Bytes := (d.rowRoots ++ d.colRoots).map NsHash.toBytes

/-! ### Erasure extension with the codec as a parameter -/

/-- transpose of a row-major `w × w` square -/
def transposeSq (w : Nat) (sq : List Bytes) : List Bytes :=
  (List.range (w * w)).map (fun i => sq.getD ((i % w) * w + i / w) [])

/-- `ExtendedDataSquare::from_ods` (before the final validation), with the Reed–Solomon encoder
    `enc : k data shares ↦ k parity shares` as a parameter.  Rows of Q0 are extended to the right (Q1),
    columns of Q0 downwards (Q2), rows of Q2 to the right (Q3). -/
def extendRaw (enc : List Bytes → List Bytes) (k : Nat) (ods : List Bytes) : List Bytes :=
  let odsRows := (List.range k).map (fun r => (ods.drop (r * k)).take k)
  let top := odsRows.map (fun row => row ++ enc row)
  let odsCols := (List.range k).map (fun c => (List.range k).map (fun r => ods.getD (r * k + c) []))
  let q2Cols := odsCols.map enc                       -- q2Cols[c][r] = Q2[r][c]
  let q2Rows := (List.range k).map (fun r => q2Cols.map (fun colv => colv.getD r []))
  let bottom := q2Rows.map (fun row => row ++ enc row)
  (top ++ bottom).flatten

end Lumina.Model.Eds

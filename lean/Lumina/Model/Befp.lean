/-
  Model of `BadEncodingFraudProof::validate` (`types/src/byzantine.rs`), step by step in the code's order:

      height check → rows/cols count check → `square_width()` → index / shares length / present count checks
      → [fixed] codec capacity check → per-share proof loop (root chosen by `(axis, proof_axis)`,
        [fixed] the proof's leaf index must be the share's position on that tree, lumina's `verify_range`)
      → `leopard_codec::reconstruct` → `leopard_codec::encode` → rebuild the axis NMT (namespace of each leaf, `push_leaf`
        order check) → compare the root with the header's.

  Three defects of the code as it was (`validateUnfixed`) are repaired in /repo (`validate`):
    * `bindPos`   the per-share proof was not bound to the share's position (honest shares with honest proofs,
                  permuted, "proved" fraud against an honest block);
    * `nsFixed`   the rebuilt leaves `n < ods_width` were always put under `Namespace::from_raw(&share[..29]).unwrap()`,
                  also for axes in the lower / right half of the square, whose leaves are ALL parity leaves: panic on
                  real blocks, and a false "fraud" whenever the parity bytes happen to parse as a namespace; now parity
                  namespace for such axes, and an undecodable namespace in a first-quadrant position is "befp is legit"
                  instead of a panic;
    * `capGuard`  a square wider than the codec's 256 shards made `reconstruct` fail, which counted as "befp is
                  legit" for ANY proof carrying k proven shares; now such a proof cannot be checked and is rejected.

  The Reed–Solomon arithmetic is a parameter (`Codec`); leopard's argument checks are transcribed
  (`EdsCode.leopardReconstructPre`, `EdsCode.leopardEncodeErr`).  Structures `Befp`, `ShareWithProof` are group D3's
  (`Lumina.Model.Decoders`, which also transcribes `TryFrom<RawBadEncodingFraudProof>`).

  Owner: group D2.
-/
import Lumina.Model.EdsCode
import Lumina.Model.Decoders

namespace Lumina.Model.Befp
open Lumina.Util Lumina.Model.Nmt Lumina.Model.Eds Lumina.Model.EdsCode
open Lumina.Model.Decoders (Befp ShareWithProof)

/-- outcome classes of `validate` -/
inductive BErr where
  /-- `Error::Validation` (`bail_validation!`) -/
  | validation
  /-- `Error::RangeProofError(_)` from a per-share proof -/
  | rangeProof (e : Nmt.Err)
  /-- the Rust code panics -/
  | panic
  deriving DecidableEq, Repr, Inhabited

def BErr.kind : BErr → String
  | .validation => "Validation"
  | .rangeProof .panic => "panic"
  | .rangeProof e => "RangeProofError:" ++ e.kind
  | .panic => "panic"

/-- the Reed–Solomon transforms: `recon` = all shards after `reconstruct_inner` on the erased axis (erased = `[]`),
    `enc` = the `k` parity shards of `k` data shards -/
structure Codec where
  enc : List Bytes → List Bytes
  recon : List Bytes → List Bytes

/-- which of the repairs are in force -/
structure Flags where
  bindPos : Bool
  nsFixed : Bool
  capGuard : Bool
  deriving Repr, DecidableEq

def Flags.fixed : Flags := ⟨true, true, true⟩
def Flags.unfixed : Flags := ⟨false, false, false⟩

/-- root and leaf index for the share at position `i` of axis `(axis, index)` proven along `proofAxis`:
    the `match (self.axis, proof_axis)` of the loop -/
def rootAndLeafIdx (dah : Dah) (axis : Axis) (index : Nat) (proofAxis : Axis) (i : Nat) : Option NsHash × Nat :=
  match axis, proofAxis with
  | .row, .row => (dah.rowRoot? index, i)
  | .row, .col => (dah.colRoot? i, index)
  | .col, .row => (dah.rowRoot? i, index)
  | .col, .col => (dah.colRoot? index, i)

/-- the per-share proof loop -/
def verifyShares (F : Flags) (H : HashFn) (dah : Dah) (axis : Axis) (index : Nat) :
    List (Option ShareWithProof) → Nat → Except BErr Unit
  | [], _ => .ok ()
  | none :: rest, i => verifyShares F H dah axis index rest (i + 1)
  | some s :: rest, i =>
    match rootAndLeafIdx dah axis index s.proofAxis i with
    | (none, _) => .error .panic                 -- the `.unwrap()`s (unreachable after the range checks)
    | (some root, leafIdx) =>
      if F.bindPos && s.proof.start ≠ leafIdx then .error .validation
      else
        match luminaVerifyRange H s.proof root [s.share] s.ns with
        | .error e => .error (.rangeProof e)
        | .ok () => verifyShares F H dah axis index rest (i + 1)

/-- namespace of the `n`-th rebuilt leaf of the axis `index`: `.ok none` = "befp is legit" (the reconstructed original
    data carries no valid namespace; before the fix: `.unwrap()` panic) -/
def leafNs (F : Flags) (k index n : Nat) (sh : Bytes) : Except BErr (Option Bytes) :=
  if n < k && (!F.nsFixed || index < k) then
    if sh.length < NS_SIZE then .error .panic            -- `&share[..NS_SIZE]`
    else
      match Namespace.fromRaw (sh.take NS_SIZE) with
      | .ok ns => .ok (some ns)
      | .error _ => if F.nsFixed then .ok none else .error .panic   -- was `.unwrap()`
  else .ok (some parityNs)

/-- the rebuild loop `for (n, share) in rebuilt_shares.iter().enumerate()`: namespace of leaf `n`, then `push_leaf`
    with its order check against `hi`.  `.ok none` = an early `return Ok(())` ("befp is legit"). -/
def rebuildLeaves (F : Flags) (H : HashFn) (k index : Nat) : List Bytes → Nat → Bytes → Except BErr (Option (List NsHash))
  | [], _, _ => .ok (some [])
  | sh :: rest, n, hi =>
    match leafNs F k index n sh with
    | .error e => .error e
    | .ok none => .ok none
    | .ok (some ns) =>
      if ltB ns hi then .ok none                            -- `push_leaf` refused
      else
        match rebuildLeaves F H k index rest (n + 1) ns with
        | .error e => .error e
        | .ok none => .ok none
        | .ok (some hs) => .ok (some (hashLeaf H ns sh :: hs))

/-- `leopard_codec::reconstruct(&mut rebuilt_shares, ods_width)`: `none` = `Err(_)`, else the shards afterwards -/
def reconstructStep (C : Codec) (k : Nat) (rebuilt : List Bytes) : Option (List Bytes) :=
  match leopardReconstructPre rebuilt k with
  | .err => none
  | .allPresent => some rebuilt
  | .run => some (C.recon rebuilt)

/-- `validate` from the reconstruction on; `rebuilt` = the axis with `[]` for the missing shares -/
def checkEncoding (F : Flags) (H : HashFn) (C : Codec) (dah : Dah) (axis : Axis) (index k : Nat) (rebuilt : List Bytes) :
    Except BErr Unit :=
  match reconstructStep C k rebuilt with
  | none => .ok ()                                          -- "befp is legit"
  | some recd =>
    if leopardEncodeErr recd k then .ok ()                  -- "befp is legit" (future-proofing branch)
    else
      let full := recd.take k ++ C.enc (recd.take k)
      match rebuildLeaves F H k index full 0 (List.replicate NS_SIZE 0) with
      | .error e => .error e
      | .ok none => .ok ()                                  -- "befp is legit"
      | .ok (some hs) =>
        match dah.root? axis index with
        | none => .error .panic
        | some expected =>
          match computeRoot H true hs with
          | .error _ => .error .panic
          | .ok root => if root == expected then .error .validation else .ok ()

/-- "rebuild the whole axis": the share bytes, an empty vector where the share is absent -/
def rebuiltOf (shares : List (Option ShareWithProof)) : List Bytes :=
  shares.map (fun o => match o with | some s => s.share | none => [])

/-- `<BadEncodingFraudProof as FraudProof>::validate(header)`; `hh` = `header.height()`, `dah` = `header.dah` -/
def validateWith (F : Flags) (H : HashFn) (C : Codec) (p : Befp) (hh : Nat) (dah : Dah) : Except BErr Unit :=
  if hh ≠ p.height then .error .validation
  else if dah.rowRoots.length ≠ dah.colRoots.length then .error .validation
  else if dah.rowRoots.length > 65535 then .error .panic     -- `square_width()`: `expect("len is bigger than u16::MAX")`
  else
    let w := dah.rowRoots.length
    let k := w / 2
    if p.index ≥ w then .error .validation
    else if p.shares.length ≠ w then .error .validation
    else if (p.shares.filter Option.isSome).length < k then .error .validation
    else if F.capGuard && w > LEOPARD_ORDER then .error .validation
    else
      match verifyShares F H dah p.axis p.index p.shares 0 with
      | .error e => .error e
      | .ok () =>
        checkEncoding F H C dah p.axis p.index k (rebuiltOf p.shares)

/-- the code as it is now -/
def validate := validateWith Flags.fixed
/-- the code before the three `fix:` commits of C07 -/
def validateUnfixed := validateWith Flags.unfixed

end Lumina.Model.Befp

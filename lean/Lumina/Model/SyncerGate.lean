/-
  Executable model of the fetch decision of the syncer, `Worker::fetch_next_batch`
  (`/repo/node/src/syncer.rs`): the gates in the order of the Rust code

    1. a batch is already ongoing                    → nothing
    2. no connected peer                             → nothing
    3. no subjective head yet                        → nothing
    4. `calculate_range_to_fetch(head, pruned + stored, batch_size)` empty → nothing
    5. slow-sync gate (`highest_slow_sync_height`, threshold `max(batch_size / 2, 50)`,
       `(stored - sampled).len()`)                   → nothing
    6. sampling-window gate on `get_by_height(end + 1)`:
         stored      → request only if that header is inside the sampling window
         `NotFound`  → (code after the C25 fix) nothing if `end + 1` is a synced (hence
                       pruned) height; request otherwise
    7. request the batch.

  plus the small transition system around it that the syncer / pruner / daser drive
  (`State`, `Op`, `step`): store insertion and removal at the level of the three
  `BlockRanges` of the store, the two heights the event loops maintain, and
  `on_fetch_next_batch_result` (slow-sync height scan + insertion).

  External things are inputs: header times enter only through the two predicates of `Chain`
  (`oldS h`: the header at height `h` is NOT inside the sampling window; `oldP h`: its time is
  `<=` the pruning cutoff); the number of connected peers; what the request task answers.

  `fetchDecisionWith false` is the code BEFORE the C25 fix (`Err(NotFound) => {}` for every
  missing bounding header); kept for the `_counterexample` theorem.

  Import-free apart from the sibling models.
-/
import Lumina.Model.Ranges
import Lumina.Model.FetchRange

namespace Lumina.Model.SyncerGate
open Lumina.Model.Ranges

/-- why `fetch_next_batch` returned without scheduling a request -/
inductive Idle where
  | ongoing | noPeers | noHead | nothingToFetch | slowSync
  | boundOutsideWindow   -- `get_by_height(end + 1)` is stored and outside the sampling window
  | boundPruned          -- `get_by_height(end + 1)` is `NotFound` and `end + 1` is synced (pruned)
deriving DecidableEq, Repr, Inhabited

inductive Decision where
  | idle (why : Idle)
  | request (r : Range)
deriving DecidableEq, Repr, Inhabited

/-- everything `fetch_next_batch` reads -/
structure GateIn where
  /-- `!self.ongoing_batch.task.is_terminated()` -/
  ongoing : Bool
  /-- `self.p2p.peer_tracker_info().num_connected_peers` -/
  connectedPeers : Nat
  /-- `self.subjective_head_height` -/
  head : Option Nat
  /-- `store.get_stored_header_ranges()` -/
  stored : Ranges
  /-- `store.get_pruned_ranges()` -/
  pruned : Ranges
  /-- `store.get_sampled_ranges()` -/
  sampled : Ranges
  batchSize : Nat
  /-- `self.highest_slow_sync_height` -/
  slowSync : Option Nat
  /-- `in_sampling_window(header)` of the STORED header at this height -/
  inWindow : Nat → Bool

/-- `(self.batch_size / 2).max(SLOW_SYNC_MIN_THRESHOLD)` -/
def slowThreshold (slowMin batchSize : Nat) : Nat := max (batchSize / 2) slowMin

/-- the slow-sync gate: `true` = do not fetch now -/
def slowSyncStop (slowMin : Nat) (i : GateIn) (nextBatch : Range) : Res Bool :=
  -- `self.highest_slow_sync_height.is_some_and(|height| *next_batch.end() <= height)`
  let inSlow := match i.slowSync with
    | some h => decide (nextBatch.2 ≤ h)
    | none => false
  if inSlow then
    -- `(store_ranges - sampled_ranges).len()`
    match sub i.stored i.sampled with
    | .error e => .error e
    | .ok unsampled =>
      match len unsampled with
      | .error e => .error e
      | .ok available => .ok (decide (available > slowThreshold slowMin i.batchSize))
  else .ok false

/-- the sampling-window gate on `bound = next_batch.end() + 1`.
    `prunedBoundCheck = true`: the current code; `false`: the code before the C25 fix. -/
def windowGate (prunedBoundCheck : Bool) (i : GateIn) (synced : Ranges) (nextBatch : Range) (bound : Nat) :
    Decision :=
  if contains i.stored bound then
    -- `Ok(known_header)`
    if i.inWindow bound then .request nextBatch else .idle .boundOutsideWindow
  else
    -- `Err(StoreError::NotFound)`
    if prunedBoundCheck && contains synced bound then .idle .boundPruned else .request nextBatch

/-- `Worker::fetch_next_batch` up to the point where the request task is created. -/
def fetchDecisionWith (prunedBoundCheck : Bool) (slowMin : Nat) (i : GateIn) : Res Decision :=
  if i.ongoing then .ok (.idle .ongoing)
  else if i.connectedPeers == 0 then .ok (.idle .noPeers)
  else
    match i.head with
    | none => .ok (.idle .noHead)
    | some head =>
      -- `let synced_ranges = pruned_ranges + &store_ranges;`
      match add i.pruned i.stored with
      | .error e => .error e
      | .ok synced =>
        match FetchRange.calculateRangeToFetch head synced i.batchSize with
        | .error e => .error e
        | .ok nextBatch =>
          if Range.isEmpty nextBatch then .ok (.idle .nothingToFetch)
          else
            match slowSyncStop slowMin i nextBatch with
            | .error e => .error e
            | .ok true => .ok (.idle .slowSync)
            | .ok false =>
              match addU64 nextBatch.2 1 with
              | .error e => .error e
              | .ok bound => .ok (windowGate prunedBoundCheck i synced nextBatch bound)

/-- the current code -/
def fetchDecision := fetchDecisionWith true
/-- the code before the C25 fix -/
def fetchDecisionOld := fetchDecisionWith false

/-! ## The transition system around the decision -/

/-- time classes of the headers of the chain the node follows (inputs) -/
structure Chain where
  /-- the header at this height is NOT inside the sampling window -/
  oldS : Nat → Bool
  /-- the time of the header at this height is `<=` the pruning cutoff -/
  oldP : Nat → Bool

structure State where
  stored : Ranges := []
  pruned : Ranges := []
  sampled : Ranges := []
  head : Option Nat := none
  slowSync : Option Nat := none
  peers : Nat := 0
  batchSize : Nat := 512
  /-- `ongoing_batch.range` -/
  ongoing : Option Range := none
deriving Repr, Inhabited

def gateIn (c : Chain) (s : State) : GateIn :=
  { ongoing := s.ongoing.isSome, connectedPeers := s.peers, head := s.head, stored := s.stored,
    pruned := s.pruned, sampled := s.sampled, batchSize := s.batchSize, slowSync := s.slowSync,
    inWindow := fun h => !c.oldS h }

/-- `Store::insert` of a verified, honest span at the level of the store's three `BlockRanges`
    (`check_insertion_constraints`, then `header_ranges += r`, `sampled -= r`, `pruned -= r`);
    `none`: rejected, nothing changes -/
def storeInsert (s : State) (r : Range) : Option State :=
  match checkInsertionConstraints s.stored r with
  | .error _ => none
  | .ok _ =>
    match insertRelaxed s.stored r, removeRelaxed s.sampled r, removeRelaxed s.pruned r with
    | .ok st, .ok sa, .ok pr => some { s with stored := st, sampled := sa, pruned := pr }
    | _, _, _ => none

/-- `Store::remove_height` (`NotFound` when the height is not stored) -/
def storeRemove (s : State) (h : Nat) : Option State :=
  if !contains s.stored h then none
  else
    match removeRelaxed s.stored (h, h), removeRelaxed s.sampled (h, h), insertRelaxed s.pruned (h, h) with
    | .ok st, .ok sa, .ok pr => some { s with stored := st, sampled := sa, pruned := pr }
    | _, _, _ => none

/-- `Store::mark_as_sampled` -/
def storeMark (s : State) (h : Nat) : Option State :=
  if !contains s.stored h then none
  else
    match insertRelaxed s.sampled (h, h) with
    | .ok sa => some { s with sampled := sa }
    | .error _ => none

/-- `set_subjective_head_height` -/
def setHead (s : State) (h : Nat) : State :=
  match s.head with
  | some old => if h ≤ old then s else { s with head := some h }
  | none => { s with head := some h }

/-- the `for header in headers.iter().rev()` loop of `on_fetch_next_batch_result`
    over the heights of the batch from the highest to the lowest -/
def slowSyncScan (oldP : Nat → Bool) (slow : Option Nat) : List Nat → Option Nat
  | [] => slow
  | h :: rest =>
    if (match slow with | some s => decide (h ≤ s) | none => false) then slow
    else if oldP h then some h
    else slowSyncScan oldP slow rest

/-- heights of a range from the highest to the lowest -/
def heightsDesc (r : Range) : List Nat := (List.range' r.1 (r.2 + 1 - r.1)).reverse

inductive Op where
  /-- any component inserts a verified honest span (`Store::insert`) -/
  | insert (r : Range)
  /-- the pruner removes a height (`Store::remove_height`) -/
  | prune (h : Nat)
  /-- the daser marks a height as sampled -/
  | sample (h : Nat)
  /-- header-sub / init: `set_subjective_head_height` -/
  | setHead (h : Nat)
  | setSlow (h : Option Nat)
  | setPeers (n : Nat)
  | setBatch (n : Nat)
  /-- `fetch_next_batch`; `keep = false`: the request is cancelled right away
      (what leaving `connected_event_loop` does) -/
  | fetch (keep : Bool)
  | cancel
  /-- `on_fetch_next_batch_result` for the ongoing batch: the honest headers of the whole
      range (`ok = true`) or a non-fatal error -/
  | deliver (ok : Bool)
deriving Repr

inductive Out where
  | ok | err
  | decision (d : Decision)
  | panic
deriving DecidableEq, Repr, Inhabited

def step (slowMin : Nat) (c : Chain) (s : State) : Op → State × Out
  | .insert r => match storeInsert s r with
    | some s' => (s', .ok)
    | none => (s, .err)
  | .prune h => match storeRemove s h with
    | some s' => (s', .ok)
    | none => (s, .err)
  | .sample h => match storeMark s h with
    | some s' => (s', .ok)
    | none => (s, .err)
  | .setHead h => (setHead s h, .ok)
  | .setSlow h => ({ s with slowSync := h }, .ok)
  | .setPeers n => ({ s with peers := n }, .ok)
  | .setBatch n => ({ s with batchSize := n }, .ok)
  | .fetch keep =>
    match fetchDecision slowMin (gateIn c s) with
    | .error _ => (s, .panic)
    | .ok (.request r) => ((if keep then { s with ongoing := some r } else s), .decision (.request r))
    | .ok d => (s, .decision d)
  | .cancel => ({ s with ongoing := none }, .ok)
  | .deliver ok =>
    match s.ongoing with
    | none => (s, .err)
    | some r =>
      let s := { s with ongoing := none }
      if !ok then (s, .ok)
      else
        let s := { s with slowSync := slowSyncScan c.oldP s.slowSync (heightsDesc r) }
        match storeInsert s r with
        | some s' => (s', .ok)
        | none => (s, .ok)   -- non-fatal store error: event only

def run (slowMin : Nat) (c : Chain) : State → List Op → State × List Out
  | s, [] => (s, [])
  | s, op :: ops =>
    let (s1, o) := step slowMin c s op
    let (s2, os) := run slowMin c s1 ops
    (s2, o :: os)

end Lumina.Model.SyncerGate

/-
  `RowProof::verify` (/repo/types/src/data_availability_header.rs) and
  `DataAvailabilityHeader::{hash, row_proof}`.

  Row / column roots are the 90-byte arrays `NamespacedHash::to_array()`; they are the *leaves* of
  the simple merkle tree whose root is the DAH hash (data root).
-/
import Lumina.Model.Merkle

namespace Lumina.Model.RowProof
open Lumina.Util Lumina.Model.Merkle

structure RowProof (D : Type) where
  rowRoots : List Bytes
  proofs : List (Proof D)
  startRow : Nat     -- u16
  endRow : Nat       -- u16

inductive Err where
  | lenMismatch          -- "invalid row proof: row_roots.len() != proofs.len()"
  | startGtEnd           -- "start_row (..) > end_row (..)"
  | spanMismatch         -- "length based on start_row and end_row (..) != length of proofs (..)"
  | emptyHash            -- "empty hash"
  | merkle (e : Merkle.Err)
  deriving DecidableEq, Repr

def Err.kind : Err → String
  | .lenMismatch => "LenMismatch"
  | .startGtEnd => "StartGtEnd"
  | .spanMismatch => "SpanMismatch"
  | .emptyHash => "EmptyHash"
  | .merkle e => e.kind

inductive Outcome where
  | ok
  | err (e : Err)
  | panic
  deriving DecidableEq, Repr

def u16Max : Nat := 65535

/-- the `for (row_root, proof) in zip { proof.verify(row_root.to_array(), root)? }` loop,
    parametric in the per-proof verifier (original or fixed) -/
def verifyLoop {D : Type} (vfy : Proof D → Bytes → D → Merkle.Outcome) (rt : D) :
    List Bytes → List (Proof D) → Outcome
  | r :: rs, p :: ps =>
    match vfy p r rt with
    | .ok => verifyLoop vfy rt rs ps
    | .err e => .err (.merkle e)
    | .panic => .panic
  | _, _ => .ok

/-- `RowProof::verify` as in the ORIGINAL code: `end_row - start_row + 1` evaluated in `u16`
    (debug build: overflow panics; release: wraps to 0), inner proofs verified without the
    `index < total` check. -/
def verifyOrig {D : Type} [DecidableEq D] (H : HashFns D) (rp : RowProof D) (rt : Option D) : Outcome :=
  if rp.rowRoots.length ≠ rp.proofs.length then .err .lenMismatch
  else if rp.endRow < rp.startRow then .err .startGtEnd
  else if u16Max < rp.endRow - rp.startRow + 1 then .panic
  else if rp.endRow - rp.startRow + 1 ≠ rp.proofs.length then .err .spanMismatch
  else match rt with
    | none => .err .emptyHash
    | some r => verifyLoop (fun p leaf r => p.verifyOrig H leaf r) r rp.rowRoots rp.proofs

/-- `RowProof::verify` (current code): span computed in `usize`. -/
def verify {D : Type} [DecidableEq D] (H : HashFns D) (rp : RowProof D) (rt : Option D) : Outcome :=
  if rp.rowRoots.length ≠ rp.proofs.length then .err .lenMismatch
  else if rp.endRow < rp.startRow then .err .startGtEnd
  else if rp.endRow - rp.startRow + 1 ≠ rp.proofs.length then .err .spanMismatch
  else match rt with
    | none => .err .emptyHash
    | some r => verifyLoop (fun p leaf r => p.verify H leaf r) r rp.rowRoots rp.proofs

/-- `DataAvailabilityHeader::hash`: simple merkle root over row roots followed by column roots -/
def dahHash {D : Type} (H : HashFns D) (rows cols : List Bytes) : D :=
  root H (rows ++ cols)

inductive BuildErr where
  | indexOutOfRange
  deriving DecidableEq, Repr

/-- the `for idx in rows` loop of `DataAvailabilityHeader::row_proof` -/
def rowProofLoop {D : Type} (H : HashFns D) (rows all : List Bytes) :
    List Nat → Except BuildErr (List (Proof D) × List Bytes)
  | [] => .ok ([], [])
  | idx :: rest =>
    match Proof.new H idx all with
    | .error _ => .error .indexOutOfRange
    | .ok (p, _) =>
      match rows[idx]? with
      | none => .error .indexOutOfRange
      | some row =>
        match rowProofLoop H rows all rest with
        | .error e => .error e
        | .ok (ps, rs) => .ok (p :: ps, row :: rs)

/-- `DataAvailabilityHeader::row_proof(start..=end)` -/
def rowProof {D : Type} (H : HashFns D) (rows cols : List Bytes) (startRow endRow : Nat) :
    Except BuildErr (RowProof D) :=
  match rowProofLoop H rows (rows ++ cols) (List.range' startRow (endRow + 1 - startRow)) with
  | .error e => .error e
  | .ok (ps, rs) => .ok { rowRoots := rs, proofs := ps, startRow := startRow, endRow := endRow }

end Lumina.Model.RowProof

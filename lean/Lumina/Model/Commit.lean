/-
  Executable model of light / trusting commit verification (C03, used by C01 and C02).

  Rust                                                        Lean
  ----------------------------------------------------------  -------------------------------
  types/src/trust_level.rs  TrustLevelRatio::voting_power_needed   votingPowerNeeded
  types/src/validator_set.rs ValidatorSetExt::verify_commit_light  verifyCommitLight / lightLoop
  types/src/validator_set.rs …::verify_commit_light_trusting       verifyCommitLightTrusting / trustLoop
  types/src/validator_set.rs find_validator                        findValidator
  types/src/validator_set.rs ValidateBasic for Set                 valSetValidateBasic
  types/src/block/commit.rs  ValidateBasic for Commit/CommitSig    commitValidateBasic / commitSigValidateBasic

  What is NOT modelled but taken as input: signature verification.  `ok i j` is the oracle
  "the signature carried by commit entry `j` verifies, under the public key of validator
  number `i` of the set, for the canonical vote bytes of entry `j`"
  (`validator.verify_signature::<Verifier>(&commit.vote_sign_bytes(chain_id, j)?, sig)`).
  Light verification only ever asks `ok i i`, trusting verification asks `ok i j` where `i` is the
  first validator of the trusted set whose address equals the address written in entry `j`.

  Integers: voting powers and tallies are `u64` in Rust.  They are `Nat` here, with the two
  places where Rust can overflow made explicit: `checked_mul` in `voting_power_needed` (an
  error) and `tallied_voting_power += power` (a debug-build panic → `Outcome.panic`; the
  harness is built with overflow checks on).

  No imports (compiled into the driver).
-/
namespace Lumina.Model.Commit

/-- 2^64 -/
def U64_LIMIT : Nat := 18446744073709551616

abbrev Addr := List UInt8

/-- `tendermint::validator::Info`, the parts that matter -/
structure Validator where
  addr : Addr
  power : Nat
  deriving Repr, DecidableEq

/-- `tendermint::validator::Set` (fields are `pub` in tendermint, so `total` is data, not derived) -/
structure ValSet where
  vals : List Validator
  total : Nat
  hasProposer : Bool := true
  deriving Repr, DecidableEq

/-- `BlockIdFlag` -/
inductive Flag where
  | absent | nil | commit
  deriving Repr, DecidableEq

/-- `tendermint::block::CommitSig`; `hasSig` = `signature.is_some()` (for `absent` both
    `addr` and `hasSig` are meaningless and ignored) -/
structure CSig where
  flag : Flag
  addr : Addr
  hasSig : Bool
  deriving Repr, DecidableEq

inductive Err where
  /-- "validators signature len != commit signatures len" -/
  | lenMismatch
  /-- "height != commit height" -/
  | heightMismatch
  /-- `checked_mul` overflow in `voting_power_needed` -/
  | neededOverflow
  /-- `checked_div` by zero in `voting_power_needed` -/
  | neededDivZero
  /-- "No signature in CommitSig" -/
  | noSignature
  /-- `verify_signature` failed -/
  | sigInvalid
  /-- "Double vote from …" -/
  | doubleVote
  /-- `VerificationError::NotEnoughVotingPower(tallied, needed)` -/
  | notEnough (tallied needed : Nat)
  deriving Repr, DecidableEq

inductive Outcome where
  | ok
  | err (e : Err)
  /-- `attempt to add with overflow` on the tally (debug build) -/
  | panic
  deriving Repr, DecidableEq

/-- `TrustLevelRatio::voting_power_needed`: `numerator.checked_mul(total)?.checked_div(denominator)?` -/
def votingPowerNeeded (num den total : Nat) : Except Err Nat :=
  if num * total ≥ U64_LIMIT then .error .neededOverflow
  else if den = 0 then .error .neededDivZero
  else .ok (num * total / den)

/-- the `for (idx, (validator, commit_sig)) in validators.zip(signatures).enumerate()` loop of
    `verify_commit_light`, from index `idx` with `tallied` so far -/
def lightLoop (ok : Nat → Nat → Bool) (needed : Nat) :
    Nat → Nat → List Validator → List CSig → Outcome
  | _, tallied, [], _ => .err (.notEnough tallied needed)
  | _, tallied, _ :: _, [] => .err (.notEnough tallied needed)
  | idx, tallied, v :: vs, s :: ss =>
    if s.flag = .commit then
      if s.hasSig = false then .err .noSignature
      else if ok idx idx = false then .err .sigInvalid
      else
        if tallied + v.power ≥ U64_LIMIT then .panic
        else if tallied + v.power > needed then .ok
        else lightLoop ok needed (idx + 1) (tallied + v.power) vs ss
    else lightLoop ok needed (idx + 1) tallied vs ss

/-- `ValidatorSetExt::verify_commit_light(self, chain_id, height, commit)` with the literal
    trust level `TrustLevelRatio::new(num, den)` of the source (2, 3) -/
def verifyCommitLight (ok : Nat → Nat → Bool) (num den : Nat) (vs : ValSet)
    (height commitHeight : Nat) (sigs : List CSig) : Outcome :=
  if vs.vals.length ≠ sigs.length then .err .lenMismatch
  else if height ≠ commitHeight then .err .heightMismatch
  else match votingPowerNeeded num den vs.total with
    | .error e => .err e
    | .ok needed => lightLoop ok needed 0 0 vs.vals sigs

/-- `find_validator`: first validator with that address, with its index (from `base`) -/
def findValidatorFrom (a : Addr) : Nat → List Validator → Option (Nat × Validator)
  | _, [] => none
  | i, v :: vs => if v.addr = a then some (i, v) else findValidatorFrom a (i + 1) vs

def findValidator (vals : List Validator) (a : Addr) : Option (Nat × Validator) :=
  findValidatorFrom a 0 vals

/-- the loop of `verify_commit_light_trusting`; `seen` = keys of `seen_vals` -/
def trustLoop (ok : Nat → Nat → Bool) (needed : Nat) (vals : List Validator) :
    Nat → List Nat → Nat → List CSig → Outcome
  | _, _, tallied, [] => .err (.notEnough tallied needed)
  | idx, seen, tallied, s :: ss =>
    if s.flag = .commit then
      if s.hasSig = false then .err .noSignature
      else match findValidator vals s.addr with
        | none => trustLoop ok needed vals (idx + 1) seen tallied ss
        | some (vi, v) =>
          if seen.contains vi then .err .doubleVote
          else if ok vi idx = false then .err .sigInvalid
          else
            if tallied + v.power ≥ U64_LIMIT then .panic
            else if tallied + v.power > needed then .ok
            else trustLoop ok needed vals (idx + 1) (vi :: seen) (tallied + v.power) ss
    else trustLoop ok needed vals (idx + 1) seen tallied ss

/-- `ValidatorSetExt::verify_commit_light_trusting(self, chain_id, commit, trust_level)` -/
def verifyCommitLightTrusting (ok : Nat → Nat → Bool) (num den : Nat) (vs : ValSet)
    (sigs : List CSig) : Outcome :=
  match votingPowerNeeded num den vs.total with
  | .error e => .err e
  | .ok needed => trustLoop ok needed vs.vals 0 [] 0 sigs

/-- what tendermint's `Set::new`/decoding establish: the total is the sum of the powers and is
    at most `MAX_TOTAL_VOTING_POWER = i64::MAX / 8` -/
def sumPowers (vals : List Validator) : Nat := (vals.map (·.power)).sum

def MAX_TOTAL_VOTING_POWER : Nat := 1152921504606846975

def ValSet.wf (vs : ValSet) : Bool :=
  vs.total == sumPowers vs.vals && vs.total ≤ MAX_TOTAL_VOTING_POWER

/-- `impl ValidateBasic for Set`: ok = `true` -/
def valSetValidateBasic (vs : ValSet) : Bool :=
  !vs.vals.isEmpty && vs.hasProposer

/-- `impl ValidateBasic for CommitSig`.  A `tendermint::Signature` is 64 bytes by construction
    (`Signature::new` rejects other lengths), so only presence is left. -/
def commitSigValidateBasic (s : CSig) : Bool :=
  match s.flag with
  | .absent => true
  | _ => s.hasSig

end Lumina.Model.Commit

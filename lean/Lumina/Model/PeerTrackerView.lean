/-
  Projection of a model state of `Model/PeerTracker.lean` onto what the C39 spec observes.
  (Import-free; used by the driver for the state before an op and by the theorems.)
-/
import Lumina.Model.PeerTracker
import Lumina.Spec.C39

namespace Lumina.Model.PeerTracker
open Lumina.Spec.C39

def viewPeer (p : Peer) : ObsPeer :=
  { id := p.id, nConns := p.conns.length, tags := p.prot, trusted := p.trusted,
    archival := p.archival, full := p.isFull }

def viewInfo (i : Info) : ObsInfo := ⟨i.connected, i.trusted, i.full, i.archival⟩

def viewPeers (s : State) : List ObsPeer := s.peers.map viewPeer

end Lumina.Model.PeerTracker

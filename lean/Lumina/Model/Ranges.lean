/-
  Executable model of `/repo/node/src/block_ranges.rs`
  (`BlockRange = RangeInclusive<u64>`, trait `BlockRangeExt`, `BlockRanges`).

  * `Range  := Nat × Nat`   (start, end) of a `RangeInclusive<u64>`
  * `Ranges := List Range`  the `SmallVec` inside `BlockRanges`
  * one Lean function per Rust method, loops as structural recursion with the same
    early exits, `&mut self` as a returned value;
  * `u64` arithmetic goes through `addU64` / `subU64` (debug-build `+` / `-`: overflow is
    the outcome `Err.panic`), `satAdd` / `satSub` / `checkedAdd` / `checkedSub`;
  * `debug_assert!`, `.expect(..)`, `unreachable!()` and slice indexing are modelled as
    `Err.panic` outcomes as well (the harness is built with debug assertions on);
  * `Result<_, BlockRangesError>` is `Res = Except Err` with the error payloads kept.

  Import-free (core Lean only): linked into the compiled drivers and imported by the
  store / pruner / syncer / daser models.  Theorems live in `Lumina/Proofs/Ranges*.lean`.
  Signatures in this file are stable: only additions are allowed.
-/
namespace Lumina.Model.Ranges

/-- `u64::MAX` -/
def U64_MAX : Nat := 18446744073709551615

/-- `RangeInclusive<u64>`: `(start, end)`. -/
abbrev Range := Nat × Nat
/-- the vector inside `BlockRanges` -/
abbrev Ranges := List Range

/-- `BlockRangesError` plus the distinguished outcome `panic`
    (arithmetic overflow, failed `debug_assert!`, `.expect`, `unreachable!`, index out of bounds). -/
inductive Err where
  | unsorted
  | invalid (r : Range)
  | overlap (r o : Range)
  | noAdjacent (r : Range)
  | panic
deriving DecidableEq, Repr, Inhabited

abbrev Res := Except Err

/-! ## u64 helpers -/

/-- debug-build `a + b` on `u64` -/
def addU64 (a b : Nat) : Res Nat := if a + b ≤ U64_MAX then .ok (a + b) else .error .panic
/-- debug-build `a - b` on `u64` -/
def subU64 (a b : Nat) : Res Nat := if b ≤ a then .ok (a - b) else .error .panic
/-- `a.saturating_sub(b)` -/
def satSub (a b : Nat) : Nat := a - b
/-- `a.saturating_add(b)` -/
def satAdd (a b : Nat) : Nat := if a + b ≤ U64_MAX then a + b else U64_MAX
/-- `a.checked_add(b)` -/
def checkedAdd (a b : Nat) : Option Nat := if a + b ≤ U64_MAX then some (a + b) else none
/-- `a.checked_sub(b)` -/
def checkedSub (a b : Nat) : Option Nat := if b ≤ a then some (a - b) else none
/-- `debug_assert!(b)` -/
def debugAssert (b : Bool) : Res Unit := if b then .ok () else .error .panic
/-- `.expect(..)` on a `Result` -/
def expectOk {α} (x : Res α) : Res α :=
  match x with
  | .ok a => .ok a
  | .error _ => .error .panic

/-! ## `BlockRangeExt` on a single range -/

namespace Range

/-- `RangeInclusive::is_empty` (never iterated, so `exhausted = false`) -/
def isEmpty (r : Range) : Bool := !(decide (r.1 ≤ r.2))
/-- `RangeInclusive::contains` -/
def contains (r : Range) (h : Nat) : Bool := decide (r.1 ≤ h) && decide (h ≤ r.2)
/-- the condition of `validate` -/
def valid (r : Range) : Bool := decide (r.1 > 0) && decide (r.1 ≤ r.2)

def validate (r : Range) : Res Unit :=
  if valid r then .ok () else .error (.invalid r)

def len (r : Range) : Res Nat :=
  match checkedSub r.2 r.1 with
  | some difference => addU64 difference 1
  | none => .ok 0

/-- body of `is_adjacent` after the debug assertions -/
def adjacent (a b : Range) : Bool :=
  if a.2 == satSub b.1 1 then true
  else if satSub a.1 1 == b.2 then true
  else false

def isAdjacent (a b : Range) : Res Bool := do
  debugAssert (valid a)
  debugAssert (valid b)
  pure (adjacent a b)

/-- body of `is_overlapping` after the debug assertions -/
def overlapping (a b : Range) : Bool :=
  if decide (a.1 < b.1) && contains b a.2 then true
  else if decide (a.2 > b.2) && contains b a.1 then true
  else if decide (a.1 ≥ b.1) && decide (a.2 ≤ b.2) then true
  else if decide (a.1 ≤ b.1) && decide (a.2 ≥ b.2) then true
  else false

def isOverlapping (a b : Range) : Res Bool := do
  debugAssert (valid a)
  debugAssert (valid b)
  pure (overlapping a b)

def isLeftOf (a b : Range) : Res Bool := do
  debugAssert (valid a)
  debugAssert (valid b)
  pure (decide (a.2 < b.1))

def isRightOf (a b : Range) : Res Bool := do
  debugAssert (valid a)
  debugAssert (valid b)
  pure (decide (b.2 < a.1))

/-- keep at most `limit` elements, the highest ones -/
def headn (r : Range) (limit : Nat) : Range :=
  if isEmpty r then (1, 0)
  else
    match checkedAdd (satSub r.2 limit) 1 with
    | none => (1, 0)
    | some adjustedStart => (max r.1 adjustedStart, r.2)

/-- `tailn` as it was before the repair `fix: BlockRange::tailn loses the highest height …`
    (`start.saturating_add(limit).checked_sub(1)`): kept for the record of the defect -/
def tailnPreFix (r : Range) (limit : Nat) : Range :=
  if isEmpty r then (1, 0)
  else
    match checkedSub (satAdd r.1 limit) 1 with
    | none => (1, 0)
    | some adjustedEnd => (r.1, min r.2 adjustedEnd)

/-- keep at most `limit` elements, the lowest ones -/
def tailn (r : Range) (limit : Nat) : Range :=
  if isEmpty r then (1, 0)
  else
    match checkedSub limit 1 with
    | none => (1, 0)
    | some limitMinusOne => (r.1, min r.2 (satAdd r.1 limitMinusOne))

end Range

/-! ## `BlockRanges` -/

/-- `BlockRanges::new` -/
def new : Ranges := []

/-- validation loop of the pre-repair `from_vec` (`prev` = previously visited range) -/
def fromVecGo : Option Range → List Range → Res Unit
  | _, [] => .ok ()
  | prev, r :: rest => do
    Range.validate r
    let unsorted := match prev with
      | some p => decide (r.1 ≤ p.2)
      | none => false
    if unsorted then throw .unsorted
    fromVecGo (some r) rest

/-- `from_vec` as it was before the repair `fix: BlockRanges::from_vec merges adjacent ranges`
    (validation only, the vector kept as is): kept for the record of the defect -/
def fromVecPreFix (v : List Range) : Res Ranges := do
  fromVecGo none v
  pure v

/-- loop of `from_vec`; `acc` = the `merged` vector, reversed (its head is `merged.last_mut()`) -/
def fromVecMerge : List Range → List Range → Res Ranges
  | acc, [] => .ok acc.reverse
  | acc, r :: rest => do
    Range.validate r
    match acc with
    | prev :: accTail =>
      if r.1 ≤ prev.2 then throw .unsorted
      else do
        let e ← addU64 prev.2 1
        if e == r.1 then fromVecMerge ((prev.1, r.2) :: accTail) rest
        else fromVecMerge (r :: acc) rest
    | [] => fromVecMerge [r] rest

def fromVec (v : List Range) : Res Ranges := fromVecMerge [] v

def contains (rs : Ranges) (height : Nat) : Bool := rs.any (fun r => Range.contains r height)

/-- `iter().map(len).sum()` : left fold with debug-build `+` -/
def lenGo : Nat → List Range → Res Nat
  | acc, [] => .ok acc
  | acc, r :: rest => do
    let l ← Range.len r
    let acc' ← addU64 acc l
    lenGo acc' rest

def len (rs : Ranges) : Res Nat := lenGo 0 rs

def isEmpty (rs : Ranges) : Bool := rs.all Range.isEmpty

def head (rs : Ranges) : Option Nat := rs.getLast?.map (fun r => r.2)

def tail (rs : Ranges) : Option Nat := rs.head?.map (fun r => r.1)

/-- loop of `find_affected_ranges`; `i` = index of the head of the remaining list -/
def findAffectedGo (range : Range) : List Range → Nat → Option Nat → Option Nat →
    Res (Option Nat × Option Nat)
  | [], _, s, e => .ok (s, e)
  | r :: rest, i, s, e => do
    let ov ← Range.isOverlapping r range
    let hit ← if ov then pure true else Range.isAdjacent r range
    if hit then
      findAffectedGo range rest (i + 1) (if s.isNone then some i else s) (some i)
    else if e.isSome then
      pure (s, e)
    else
      findAffectedGo range rest (i + 1) s e

def findAffectedRanges (rs : Ranges) (range : Range) : Res (Option (Nat × Nat)) := do
  debugAssert (Range.valid range)
  let (s, e) ← findAffectedGo range rs 0 none none
  match s, e with
  | some s, some e => pure (some (s, e))
  | _, _ => pure none

def calcOverlap (toInsert first last : Range) : Range :=
  (max first.1 toInsert.1, min last.2 toInsert.2)

def checkInsertionConstraints (rs : Ranges) (toInsert : Range) : Res (Bool × Bool) := do
  Range.validate toInsert
  match rs.getLast? with
  | none => pure (false, false)
  | some headRange =>
    if ← Range.isLeftOf headRange toInsert then
      let prevExists ← Range.isAdjacent headRange toInsert
      pure (prevExists, false)
    else
      match ← findAffectedRanges rs toInsert with
      | none => throw (.noAdjacent toInsert)
      | some (firstIdx, lastIdx) =>
        match rs[firstIdx]?, rs[lastIdx]? with
        | some first, some last =>
          let d ← subU64 lastIdx firstIdx
          let num := d + 1
          if num == 1 then
            if ← Range.isOverlapping first toInsert then
              throw (.overlap toInsert (calcOverlap toInsert first last))
            else if ← Range.isLeftOf first toInsert then
              pure (true, false)
            else
              pure (false, true)
          else if num == 2 then
            let a ← Range.isAdjacent first toInsert
            let b ← if a then Range.isAdjacent last toInsert else pure false
            if b then pure (true, true)
            else throw (.overlap toInsert (calcOverlap toInsert first last))
          else
            throw (.overlap toInsert (calcOverlap toInsert first last))
        | _, _ => throw .panic

/-- returns `(popped, self afterwards)` -/
def popHead (rs : Ranges) : Res (Option Nat × Ranges) :=
  match rs.getLast? with
  | none => pure (none, rs)
  | some last => do
    let l ← Range.len last
    if l == 1 then
      pure (some last.2, rs.dropLast)
    else
      let e ← subU64 last.2 1
      pure (some last.2, rs.dropLast ++ [(last.1, e)])

/-- returns `(popped, self afterwards)` -/
def popTail (rs : Ranges) : Res (Option Nat × Ranges) :=
  match rs with
  | [] => pure (none, rs)
  | first :: rest => do
    let l ← Range.len first
    if l == 1 then
      pure (some first.1, rest)
    else
      let s ← addU64 first.1 1
      pure (some first.1, (s, first.2) :: rest)

/-- the `None` arm of `insert_relaxed`: insert before the first range that starts after `range` -/
def insertSorted (range : Range) : List Range → List Range
  | [] => [range]
  | r :: rest => if range.2 < r.1 then range :: r :: rest else r :: insertSorted range rest

def insertRelaxed (rs : Ranges) (range : Range) : Res Ranges := do
  Range.validate range
  match ← findAffectedRanges rs range with
  | some (startIdx, endIdx) =>
    match rs[startIdx]?, rs[endIdx]? with
    | some a, some b =>
      let start := min a.1 range.1
      let end_ := max b.2 range.2
      pure (rs.take startIdx ++ (start, end_) :: rs.drop (endIdx + 1))
    | _, _ => throw .panic
  | none => pure (insertSorted range rs)

def removeRelaxed (rs : Ranges) (range : Range) : Res Ranges := do
  Range.validate range
  match ← findAffectedRanges rs range with
  | none => pure rs
  | some (startIdx, endIdx) =>
    match rs[startIdx]?, rs[endIdx]? with
    | some firstRange, some lastRange =>
      let right ← if range.2 < lastRange.2 then do
          let s ← addU64 range.2 1
          pure [(s, lastRange.2)]
        else pure []
      let left ← if firstRange.1 < range.1 then do
          let e ← subU64 range.1 1
          pure [(firstRange.1, e)]
        else pure []
      pure (rs.take startIdx ++ left ++ right ++ rs.drop (endIdx + 1))
    | _, _ => throw .panic

def edgesGo : List Range → Ranges → Res Ranges
  | [], acc => .ok acc
  | r :: rest, acc => do
    let acc1 ← expectOk (insertRelaxed acc (r.1, r.1))
    let acc2 ← expectOk (insertRelaxed acc1 (r.2, r.2))
    edgesGo rest acc2

def edges (rs : Ranges) : Res Ranges := edgesGo rs []

/-- loop shared by `headn` (`pick = Range.headn`, reversed iteration) and `tailn` -/
def truncGo (pick : Range → Nat → Range) (limit : Nat) : List Range → Ranges → Nat → Res Ranges
  | [], truncated, _ => .ok truncated
  | range :: rest, truncated, len_ =>
    if len_ == limit then .ok truncated
    else do
      let remaining ← subU64 limit len_
      let r := pick range remaining
      let rl ← Range.len r
      let len' ← addU64 len_ rl
      let truncated' ← expectOk (insertRelaxed truncated r)
      let tl ← len truncated'
      debugAssert (tl == len')
      debugAssert (decide (len' ≤ limit))
      truncGo pick limit rest truncated' len'

def headn (rs : Ranges) (limit : Nat) : Res Ranges := truncGo Range.headn limit rs.reverse [] 0

def tailn (rs : Ranges) (limit : Nat) : Res Ranges := truncGo Range.tailn limit rs [] 0

/-- loop of `partitions`: returns `(left, right, left_len)` -/
def partitionsGo (middle : Nat) : List Range → Ranges → Ranges → Nat → Res (Ranges × Ranges × Nat)
  | [], left, right, leftLen => .ok (left, right, leftLen)
  | range :: rest, left, right, leftLen => do
    let rangeLen ← Range.len range
    let sum ← addU64 leftLen rangeLen
    if sum ≤ middle then
      let left' ← expectOk (insertRelaxed left range)
      partitionsGo middle rest left' right sum
    else if leftLen < middle then
      let t ← addU64 range.1 middle
      let leftEnd ← subU64 t leftLen
      let leftRange : Range := (range.1, leftEnd)
      let lrl ← Range.len leftRange
      let leftLen' ← addU64 leftLen lrl
      let left' ← expectOk (insertRelaxed left leftRange)
      let right' ← if leftEnd < range.2 then do
          let s ← addU64 leftEnd 1
          expectOk (insertRelaxed right (s, range.2))
        else pure right
      partitionsGo middle rest left' right' leftLen'
    else
      let right' ← expectOk (insertRelaxed right range)
      partitionsGo middle rest left right' leftLen

def partitions (rs : Ranges) : Res (Option (Ranges × Nat × Ranges)) := do
  let n ← len rs
  if n == 0 then pure none
  else
    let middle := n / 2
    let (left, right, leftLen) ← partitionsGo middle rs [] [] 0
    let rl ← len right
    if leftLen < rl then
      let (m, right') ← popTail right
      match m with
      | some m => pure (some (left, m, right'))
      | none => pure none
    else
      let (m, left') ← popHead left
      match m with
      | some m => pure (some (left', m, right))
      | none => pure none

def leftOfGo (height : Nat) : List Range → Res (Option Nat)
  | [] => .ok none
  | r :: rest => do
    if ← Range.isLeftOf r (height, height) then
      pure (some r.2)
    else if Range.contains r height && r.1 != height then
      let x ← subU64 height 1
      pure (some x)
    else
      leftOfGo height rest

/-- the height on the left of `height` (iterates the ranges in reverse) -/
def leftOf (rs : Ranges) (height : Nat) : Res (Option Nat) := leftOfGo height rs.reverse

def rightOfGo (height : Nat) : List Range → Res (Option Nat)
  | [] => .ok none
  | r :: rest => do
    if ← Range.isRightOf r (height, height) then
      pure (some r.1)
    else if Range.contains r height && r.2 != height then
      let x ← addU64 height 1
      pure (some x)
    else
      rightOfGo height rest

def rightOf (rs : Ranges) (height : Nat) : Res (Option Nat) := rightOfGo height rs

/-- `AddAssign<&BlockRanges>` / `Add` / `BitOr`: insert every range of `rhs` -/
def add : Ranges → List Range → Res Ranges
  | self, [] => .ok self
  | self, r :: rest => do
    let self' ← expectOk (insertRelaxed self r)
    add self' rest

/-- `SubAssign<&BlockRanges>` / `Sub`: remove every range of `rhs` -/
def sub : Ranges → List Range → Res Ranges
  | self, [] => .ok self
  | self, r :: rest => do
    let self' ← expectOk (removeRelaxed self r)
    sub self' rest

/-- `Not` -/
def bitNot (rs : Ranges) : Res Ranges := do
  let inverse ← expectOk (insertRelaxed [] (1, U64_MAX))
  sub inverse rs

/-- `BitOr` = `Add` -/
def bitOr (a b : Ranges) : Res Ranges := add a b

/-- `BitAnd`: `!(!a | !b)` -/
def bitAnd (a b : Ranges) : Res Ranges := do
  let na ← bitNot a
  let nb ← bitNot b
  let u ← bitOr na nb
  bitNot u

/-- `TryFrom<RangeInclusive<u64>>` -/
def ofRange (r : Range) : Res Ranges := insertRelaxed [] r

/-! ## The set a value denotes, and the representation invariant -/

/-- height `h` belongs to the set denoted by `rs` -/
def mem (rs : Ranges) (h : Nat) : Prop := ∃ r ∈ rs, r.1 ≤ h ∧ h ≤ r.2

/-- every range valid and inside `[1, u64::MAX]` -/
def AllValid (rs : Ranges) : Prop := ∀ r ∈ rs, 1 ≤ r.1 ∧ r.1 ≤ r.2 ∧ r.2 ≤ U64_MAX

/-- representation invariant: sorted, disjoint, non-adjacent, no height 0, within `u64` -/
def Inv (rs : Ranges) : Prop :=
  rs.Pairwise (fun a b => a.2 + 1 < b.1) ∧ AllValid rs

/-- decidable versions (used by specs and drivers) -/
def memB (rs : Ranges) (h : Nat) : Bool := rs.any (fun r => decide (r.1 ≤ h) && decide (h ≤ r.2))

def sortedB : Ranges → Bool
  | [] => true
  | [_] => true
  | a :: b :: rest => decide (a.2 + 1 < b.1) && sortedB (b :: rest)

def allValidB (rs : Ranges) : Bool :=
  rs.all (fun r => decide (1 ≤ r.1) && decide (r.1 ≤ r.2) && decide (r.2 ≤ U64_MAX))

def invB (rs : Ranges) : Bool := sortedB rs && allValidB rs

/-- the heights of `rs` in ascending order (for `Inv rs`): the abstract value as a list.
    Only meant for small ranges / proofs. -/
def heights (rs : Ranges) : List Nat := rs.flatMap (fun r => List.range' r.1 (r.2 + 1 - r.1))

end Lumina.Model.Ranges

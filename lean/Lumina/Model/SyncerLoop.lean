/-
  Abstract composition model of the syncer `Worker` (`/repo/node/src/syncer.rs`) for C38:
  the two event loops as a transition system over

    * the header store, taken at the level of the ABSTRACT store `Lumina.Spec.C19.AbsStore`
      (the specification both store implementations are proved to conform to: C19 / C20 / C21),
      with `ExtendedHeader::verify` as the oracle `verify`;
    * the fetch decision `Lumina.Model.SyncerGate.fetchDecision` (C24 / C25) on the store's
      three range sets;
    * the two heights the loops maintain (`subjective_head_height`, `highest_slow_sync_height`),
      the ongoing batch, the number of connected peers and the loop the worker is in.

  Events are the moves of the environment the worker reacts to:

    `peers n`      the peer tracker reports `n` connected peers
    `netHead h`    `try_init` obtained the network head `h` from trusted peers
                   (`get_head_header`), while in `connecting_event_loop`
    `headerSub h`  header-sub delivered the (already verified) new head `h`
    `batch r`      the ongoing `get_unverified_header_range` finished: `some hs` = `Ok(hs)`
                   (what the header session + header-ex client + `verify_adjacent_range`
                   accepted: see `p2pAccepts`), `none` = a non-fatal error

  Not modelled: tokio scheduling, timers (`sleep`, back-off, the report interval), commands,
  events, the broadcast of new headers, fatal errors (the worker stops).

  Import-free apart from sibling models / the import-free spec vocabulary.
-/
import Lumina.Model.SyncerGate
import Lumina.Spec.C19

namespace Lumina.Model.SyncerLoop
open Lumina.Model.Store (Hdr)
open Lumina.Spec.C19 (AbsStore chainOK)
open Lumina.Model.SyncerGate (Chain Decision GateIn fetchDecision slowSyncScan)

inductive Phase where
  | connecting   -- `connecting_event_loop`
  | connected    -- `connected_event_loop`
deriving DecidableEq, Repr, Inhabited

structure State where
  store : AbsStore := Lumina.Spec.C19.init
  /-- `subjective_head_height` -/
  head : Option Nat := none
  /-- `highest_slow_sync_height` -/
  slowSync : Option Nat := none
  /-- `ongoing_batch.range` -/
  ongoing : Option Ranges.Range := none
  /-- `num_connected_peers` -/
  peers : Nat := 0
  phase : Phase := .connecting
  batchSize : Nat := 512
deriving Repr

/-- the environment's fixed parts -/
structure Env where
  /-- `ExtendedHeader::verify` (trusted, untrusted) -/
  verify : Hdr → Hdr → Bool
  /-- time classes of headers by height (all headers of one height share their time) -/
  chain : Chain
  /-- `SLOW_SYNC_MIN_THRESHOLD` -/
  slowMin : Nat

inductive Ev where
  | peers (n : Nat)
  | netHead (h : Hdr)
  | headerSub (h : Hdr)
  | batch (res : Option (List Hdr))
deriving Repr

/-- what `P2p::get_unverified_header_range(range)` returns `Ok` for: a non-empty list (the header
    session delivers exactly the requested heights: C26; every header validated by the header-ex
    client: C28) that passes `head.verify_adjacent_range(&headers[1..])` -/
def p2pAccepts (verify : Hdr → Hdr → Bool) (r : Ranges.Range) (hs : List Hdr) : Bool :=
  match hs.head?, hs.getLast? with
  | some first, some last =>
    hs.all (fun h => h.valid) && chainOK verify hs && first.height == r.1 && last.height == r.2
  | _, _ => false

def gateIn (e : Env) (s : State) : GateIn :=
  { ongoing := s.ongoing.isSome, connectedPeers := s.peers, head := s.head,
    stored := s.store.storedRanges, pruned := s.store.prunedRanges, sampled := s.store.sampledRanges,
    batchSize := s.batchSize, slowSync := s.slowSync, inWindow := fun h => !e.chain.oldS h }

/-- `fetch_next_batch`: the new state and the request it scheduled, if any -/
def fetchNextBatch (e : Env) (s : State) : State × Option Ranges.Range :=
  match fetchDecision e.slowMin (gateIn e s) with
  | .ok (.request r) => ({ s with ongoing := some r }, some r)
  | _ => (s, none)

/-- `set_subjective_head_height` -/
def setHead (s : State) (h : Nat) : State :=
  match s.head with
  | some old => if h ≤ old then s else { s with head := some h }
  | none => { s with head := some h }

/-- `store.get_head()` -/
def storeHead (a : AbsStore) : Option Hdr := a.headHeight.bind a.atHeight

/-- `try_init`: the network head has to be inserted unless it is already the store's head
    (only the hashes are compared) -/
def needsInsert (a : AbsStore) (h : Hdr) : Bool :=
  match storeHead a with
  | some sh => sh.hash != h.hash
  | none => true

/-- the store part of `try_init`; `none` = the insertion failed (non-fatal, retried later) -/
def tryInit (e : Env) (a : AbsStore) (h : Hdr) : Option AbsStore :=
  if needsInsert a h then
    match a.insert e.verify [h] with
    | (a', .ok _) => some a'
    | (_, .err _) => none
  else some a

/-- one reaction of the worker; returns the request scheduled by the reaction, if any -/
def step (e : Env) (s : State) : Ev → State × Option Ranges.Range
  | .peers n =>
    let s := { s with peers := n }
    match s.phase with
    | .connected =>
      if n == 0 then
        -- "All peers disconnected": leave `connected_event_loop`, cancel the ongoing batch
        ({ s with ongoing := none, phase := .connecting }, none)
      else (s, none)
    | .connecting => (s, none)
  | .netHead h =>
    match s.phase with
    | .connected => (s, none)
    | .connecting =>
      match tryInit e s.store h with
      | none => (s, none)   -- non-fatal: `try_init_task` sleeps and retries
      | some store' =>
        let s := setHead { s with store := store' } h.height
        -- `connected_event_loop`
        if s.peers == 0 then (s, none)
        else fetchNextBatch e { s with phase := .connected }
  | .headerSub h =>
    match s.phase with
    | .connecting => (s, none)
    | .connected =>
      -- `on_header_sub_message`
      let s := setHead s h.height
      let s :=
        match s.store.headHeight with
        | some sh =>
          if sh + 1 == h.height then { s with store := (s.store.insert e.verify [h]).1 } else s
        | none => s
      fetchNextBatch e s
  | .batch res =>
    match s.phase, s.ongoing with
    | .connected, some _ =>
      -- `on_fetch_next_batch_result`
      let s := { s with ongoing := none }
      match res with
      | none => fetchNextBatch e s
      | some hs =>
        let s := { s with slowSync := slowSyncScan e.chain.oldP s.slowSync (hs.reverse.map Hdr.height) }
        let s := { s with store := (s.store.insert e.verify hs).1 }
        fetchNextBatch e s
    | _, _ => (s, none)

def run (e : Env) : State → List Ev → State
  | s, [] => s
  | s, ev :: evs => run e (step e s ev).1 evs

end Lumina.Model.SyncerLoop

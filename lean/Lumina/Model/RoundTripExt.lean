/-
  C46 (strengthening round) — two more lumina-owned conversion layers, from the post-prost /
  post-serde raw structures onward:

    Rust                                                              Lean
    ----------------------------------------------------------------  ---------------------------
    types/src/blob.rs  `From<Blob> for RawBlob`                        blobToRaw
                       `Blob::from_raw(raw, app_version)`              blobFromRaw
                       `custom_serde::SerdeBlob` (JSON form): field serde of `Namespace`,
                       `base64string`, `Commitment`, `index_serde`, `signer_serde`,
                       `From<Blob> for SerdeBlob`                      blobToJson
                       `TryFrom<SerdeBlob> for Blob` (`validate_blob(.., None)`)   blobFromJson
    types/src/blob/commitment.rs  `validate_blob(sv, has_signer, None)`  validateBlobNoApp
    types/src/extended_header.rs  `From<ExtendedHeader> for RawExtendedHeader`   ehToRaw
                       `TryFrom<RawExtendedHeader>` (required fields in source order, third
                       party conversions, `eh.validate()?` on decode)  ehFromRaw
                       `custom_serde::{SerdeExtendedHeader, SerdeCommit}` (JSON form) and
                       their four `From` impls                         serdeEhOfRaw / rawEhOfSerde,
                                                                       serdeCommitOfRaw / rawCommitOfSerde

  What stays abstract (parameters):
    * `commit`  — `Commitment::from_blob(namespace, data, share_version, signer, app_version)`
      (C12's subject; the driver and a corollary instantiate it with `Commitment.fromBlob`);
      the conversion only calls it and stores / forwards its result;
    * `TmConv`  — tendermint's / tendermint-proto's conversions of `Header`, `Commit`,
      `ValidatorSet` (`hFrom`, `hTo`, …), with an explicit round-trip hypothesis in the theorems;
    * `validate` — `ExtendedHeader::validate` (C01's subject) as a predicate on the decoded value.

  `AccAddress` = 20 bytes (`tendermint::account::Id`, `LENGTH = 20`).  Integers on the wire are
  naturals / mathematical integers with their range stated where the code checks it.
  Import-free apart from other import-free models (compiled into the driver).
-/
import Lumina.Model.RoundTrip

namespace Lumina.Model.RoundTrip
open Lumina.Util Lumina.Model.Nmt Lumina.Model.Eds

/-! ## Blob ↔ RawBlob (`proto.blob.v2.BlobProto`) -/

/-- `tendermint::account::LENGTH` -/
def ACC_ADDRESS_LEN : Nat := 20

/-- `celestia_types::Blob`; `C` = the commitment type -/
structure BlobV (C : Type) where
  ns : Bytes               -- Namespace (29 bytes)
  data : Bytes
  shareVersion : Nat       -- u8
  commitment : C
  index : Option Nat       -- Option<u64>
  signer : Option Bytes    -- Option<AccAddress>
  deriving DecidableEq, Repr

structure RawBlob where
  namespaceId : Bytes
  namespaceVersion : Nat   -- u32
  data : Bytes
  shareVersion : Nat       -- u32
  signer : Bytes
  deriving DecidableEq, Repr

/-- `From<Blob> for RawBlob`: no commitment, no index on the wire; absent signer = empty bytes -/
def blobToRaw {C : Type} (b : BlobV C) : RawBlob :=
  { namespaceId := Namespace.idBytes b.ns
    namespaceVersion := (Namespace.version b.ns).toNat
    data := b.data
    shareVersion := b.shareVersion
    signer := b.signer.getD [] }

inductive BlobErr (E : Type) where
  /-- `Namespace::new(..)?` -/
  | ns (e : Namespace.Err)
  /-- `u8::try_from(raw.share_version)` failed: `UnsupportedShareVersion(u8::MAX)` -/
  | shareVersionRange
  /-- `Commitment::from_blob(..)?` (its first step is `validate_blob(.., Some(app_version))`) -/
  | commitment (e : E)
  deriving DecidableEq, Repr

/-- `raw.signer.try_into().map(AccAddress::new).ok()`: anything that is not 20 bytes is DROPPED -/
def signerOfRaw (bs : Bytes) : Option Bytes := if bs.length = ACC_ADDRESS_LEN then some bs else none

/-- `Blob::from_raw(raw, app_version)`.  `raw.namespace_version as u8` truncates. -/
def blobFromRaw {C E : Type} (commit : Bytes → Bytes → Nat → Option Bytes → Nat → Except E C)
    (r : RawBlob) (appVersion : Nat) : Except (BlobErr E) (BlobV C) :=
  match Namespace.new (UInt8.ofNat r.namespaceVersion) r.namespaceId with
  | .error e => .error (.ns e)
  | .ok ns =>
    if r.shareVersion > 255 then .error .shareVersionRange
    else
      let signer := signerOfRaw r.signer
      match commit ns r.data r.shareVersion signer appVersion with
      | .error e => .error (.commitment e)
      | .ok c =>
        .ok { ns := ns, data := r.data, shareVersion := r.shareVersion, commitment := c,
              index := none, signer := signer }

/-! ## Blob ↔ JSON (`custom_serde::SerdeBlob`) -/

/-- the JSON object of a blob as serde_json hands it to the field deserializers: strings are
    still strings (base64), numbers are numbers -/
structure JsonBlob where
  /-- `"namespace"`: `Serialize/Deserialize for Namespace` (base64 string) -/
  ns : List Char
  /-- `"data"`: `base64string` -/
  data : List Char
  /-- `"share_version"`: `u8` -/
  shareVersion : Nat
  /-- `"commitment"`: `Serialize/Deserialize for Commitment` (base64 string of the 32-byte hash) -/
  commitment : List Char
  /-- `"index"`: `i64` through `index_serde`; `none` = field absent (`#[serde(default)]`) -/
  index : Option Int
  /-- `"signer"`: through `signer_serde`; `none` = field absent or JSON `null` -/
  signer : Option (List Char)
  deriving DecidableEq, Repr

def I64_MAX_NAT : Nat := 9223372036854775807

/-- `index_serde::serialize`: `None ↦ -1`; `i64::try_from(u64)` may fail (`none`) -/
def indexToWire : Option Nat → Option Int
  | none => some (-1)
  | some i => if i ≤ I64_MAX_NAT then some (i : Int) else none

/-- `index_serde::deserialize`: negative ↦ `None` -/
def indexFromWire (v : Int) : Option Nat := if v ≥ 0 then some v.toNat else none

/-- `signer_serde::serialize`: `Some(addr)` ↦ base64 string, `None` ↦ `null` -/
def signerToWire (s : Option Bytes) : Option (List Char) := s.map Namespace.b64Encode

/-- `signer_serde::deserialize`: `null` / absent / empty string ↦ `None`; otherwise the bytes
    must be an `account::Id` (20 bytes).  Outer `none` = serde error. -/
def signerFromWire : Option (List Char) → Option (Option Bytes)
  | none => some none
  | some s =>
    match Namespace.b64Decode s with
    | none => none
    | some bs =>
      if bs.isEmpty then some none
      else if bs.length = ACC_ADDRESS_LEN then some (some bs)
      else none

/-- `Deserialize for Commitment`: base64 into a 64-byte buffer, then exactly 32 bytes -/
def commitmentFromWire (s : List Char) : Option Bytes :=
  match Namespace.b64Decode s with
  | none => none
  | some bs => if bs.length = HASH_LEN then some bs else none

/-- `Serialize for Blob` (`into = SerdeBlob`); `none` = serializer error -/
def blobToJson (b : BlobV Bytes) : Option JsonBlob :=
  match indexToWire b.index with
  | none => none
  | some i =>
    some { ns := Namespace.serialize b.ns, data := Namespace.b64Encode b.data,
           shareVersion := b.shareVersion, commitment := Namespace.b64Encode b.commitment,
           index := some i, signer := signerToWire b.signer }

inductive BlobJsonErr where
  /-- a field deserializer failed (serde error) -/
  | field
  | unsupportedShareVersion (v : Nat)
  | signerNotSupported
  | missingSigner
  deriving DecidableEq, Repr

/-- `validate_blob(share_version, has_signer, None)`: the three checks that do not need the
    app version (`SHARE_VERSION_ZERO = 0`, `SHARE_VERSION_ONE = 1`) -/
def validateBlobNoApp (shareVersion : Nat) (hasSigner : Bool) : Except BlobJsonErr Unit :=
  if !(shareVersion = 0 ∨ shareVersion = 1) then .error (.unsupportedShareVersion shareVersion)
  else if shareVersion = 0 ∧ hasSigner then .error .signerNotSupported
  else if shareVersion = 1 ∧ !hasSigner then .error .missingSigner
  else .ok ()

/-- `Deserialize for Blob` (`try_from = SerdeBlob`): the commitment is TAKEN from the JSON, not
    recomputed -/
def blobFromJson (j : JsonBlob) : Except BlobJsonErr (BlobV Bytes) :=
  match Namespace.deserialize j.ns, Namespace.b64Decode j.data, commitmentFromWire j.commitment,
        signerFromWire j.signer with
  | some ns, some data, some c, some signer =>
    if j.shareVersion > 255 then .error .field
    else
      let index := match j.index with
        | none => none
        | some v => indexFromWire v
      match validateBlobNoApp j.shareVersion signer.isSome with
      | .error e => .error e
      | .ok () =>
        .ok { ns := ns, data := data, shareVersion := j.shareVersion, commitment := c,
              index := index, signer := signer }
  | _, _, _, _ => .error .field

/-! ## ExtendedHeader ↔ RawExtendedHeader -/

/-- `header.pb.ExtendedHeader`: four optional messages -/
structure RawEh (RH RC RV : Type) where
  header : Option RH
  commit : Option RC
  validatorSet : Option RV
  dah : Option RawDah

/-- `celestia_types::ExtendedHeader` -/
structure Eh (H C V : Type) where
  header : H
  commit : C
  validatorSet : V
  dah : Dah

/-- the third-party conversions lumina's `TryFrom` / `From` call (`tendermint::block::Header`,
    `block::Commit`, `validator::Set` ↔ their `tendermint_proto::v0_38::types` forms);
    `none` = `Err(..)` -/
structure TmConv (H C V RH RC RV : Type) where
  hTo : H → RH
  hFrom : RH → Option H
  cTo : C → RC
  cFrom : RC → Option C
  vTo : V → RV
  vFrom : RV → Option V

inductive EhErr where
  | missingHeader | header
  | missingCommit | commit
  | missingValidatorSet | validatorSet
  | missingDah | dah
  /-- `eh.validate()?` failed -/
  | invalid
  deriving DecidableEq, Repr

/-- `From<ExtendedHeader> for RawExtendedHeader`: every field `Some(..)` -/
def ehToRaw {H C V RH RC RV : Type} (T : TmConv H C V RH RC RV) (eh : Eh H C V) : RawEh RH RC RV :=
  { header := some (T.hTo eh.header), commit := some (T.cTo eh.commit),
    validatorSet := some (T.vTo eh.validatorSet), dah := some (dahToRaw eh.dah) }

/-- `TryFrom<RawExtendedHeader> for ExtendedHeader`, checks in source order:
    header (`ok_or(MissingHeader)?.try_into()?`), commit, validator set, dah, then
    `eh.validate()?` -/
def ehFromRaw {H C V RH RC RV : Type} (T : TmConv H C V RH RC RV) (validate : Eh H C V → Bool)
    (r : RawEh RH RC RV) : Except EhErr (Eh H C V) :=
  match r.header with
  | none => .error .missingHeader
  | some rh =>
  match T.hFrom rh with
  | none => .error .header
  | some h =>
  match r.commit with
  | none => .error .missingCommit
  | some rc =>
  match T.cFrom rc with
  | none => .error .commit
  | some c =>
  match r.validatorSet with
  | none => .error .missingValidatorSet
  | some rv =>
  match T.vFrom rv with
  | none => .error .validatorSet
  | some v =>
  match r.dah with
  | none => .error .missingDah
  | some rd =>
  match dahFromRaw rd with
  | none => .error .dah
  | some d =>
    let eh : Eh H C V := ⟨h, c, v, d⟩
    if validate eh then .ok eh else .error .invalid

/-! ### JSON form of ExtendedHeader: `custom_serde` -/

/-- `tendermint_proto::v0_38::types::Commit` (`B` = `BlockId`, `S` = `CommitSig`) -/
structure RawCommit (B S : Type) where
  height : Int      -- i64
  round : Int       -- i32
  blockId : Option B
  signatures : List S

/-- `custom_serde::SerdeCommit`: same fields, `height` (de)serialized `maybe_quoted`,
    `signatures` `nullable` -/
structure SerdeCommit (B S : Type) where
  height : Int
  round : Int
  blockId : Option B
  signatures : List S

def serdeCommitOfRaw {B S : Type} (c : RawCommit B S) : SerdeCommit B S :=
  ⟨c.height, c.round, c.blockId, c.signatures⟩
def rawCommitOfSerde {B S : Type} (c : SerdeCommit B S) : RawCommit B S :=
  ⟨c.height, c.round, c.blockId, c.signatures⟩

/-- `custom_serde::SerdeExtendedHeader` -/
structure SerdeEh (RH B S RV : Type) where
  header : Option RH
  commit : Option (SerdeCommit B S)
  validatorSet : Option RV
  dah : Option RawDah

/-- `From<RawExtendedHeader> for SerdeExtendedHeader` (used by `Serialize for ExtendedHeader`) -/
def serdeEhOfRaw {RH B S RV : Type} (r : RawEh RH (RawCommit B S) RV) : SerdeEh RH B S RV :=
  ⟨r.header, r.commit.map serdeCommitOfRaw, r.validatorSet, r.dah⟩
/-- `From<SerdeExtendedHeader> for RawExtendedHeader` (used by `Deserialize`) -/
def rawEhOfSerde {RH B S RV : Type} (s : SerdeEh RH B S RV) : RawEh RH (RawCommit B S) RV :=
  ⟨s.header, s.commit.map rawCommitOfSerde, s.validatorSet, s.dah⟩

end Lumina.Model.RoundTrip

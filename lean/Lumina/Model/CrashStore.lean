/-
  A concrete instance of the logical state `σ` and of the operations of `Model/Crash.lean`,
  used by the C22 driver to compute the admissible post-crash states and by `Spec/C22.lean`
  to state index consistency.  It is a SET-LEVEL model of the redb store's tables (ranges are
  sets of heights, a header is its name = hash, its height and the name of its parent); the
  faithful transcription of the store operations (and the proof that it refines the abstract
  store) is C19–C21 (`Model/Store.lean`, another owner).  C22's theorems are generic in the
  operations and do not depend on this file; the correspondence does, and validates it:
  every operation's result and full table dump is diffed against the real `RedbStore`.

    Rust (redb_store.rs)                               Lean
    ------------------------------------------------   ----------------
    TryFrom<Vec<ExtendedHeader>> (verify_adjacent_range)   verifyBatch     (before the transaction)
    closure of RedbStore::insert                       insertTx
    check_insertion_constraints (set level, = C18)     constraints
    verify_against_neighbours                          neighbours
    closure of mark_as_sampled                         markSampledTx
    closure of update_sampling_metadata                updateMetaTx
    closure of remove_height                           removeTx
    closure of RedbStore::new on a v3 / empty db       openTx

  Import-free.
-/
namespace Lumina.Model.CrashStore

/-- a header as far as the store's indexes are concerned -/
structure Hdr where
  height : Nat
  /-- stands for the header hash -/
  name : String
  /-- name of the header its `last_block_id` points to -/
  parent : String
  deriving DecidableEq, Repr

inductive Err where
  | verification     -- StoreInsertionError::HeadersVerificationFailed (no transaction is started)
  | constraints      -- StoreInsertionError::ConstraintsNotMet
  | neighbors        -- StoreInsertionError::NeighborsVerificationFailed
  | hashExists       -- StoreInsertionError::HashExists
  | notFound         -- StoreError::NotFound
  | storedData       -- StoreError::StoredDataError
  deriving DecidableEq, Repr

def Err.kind : Err → String
  | .verification => "Verification"
  | .constraints => "Constraints"
  | .neighbors => "Neighbors"
  | .hashExists => "HashExists"
  | .notFound => "NotFound"
  | .storedData => "StoredData"

/-- all tables of the store -/
structure St where
  /-- schema version row, tables and identity have been written (by `RedbStore::new`) -/
  opened : Bool
  /-- identity token (`0` = none) -/
  identity : Nat
  /-- STORE.HEADERS: height ↦ header, ascending height -/
  headers : List (Nat × Hdr)
  /-- STORE.HEIGHTS: hash ↦ height, ascending (height, name) -/
  heights : List (String × Nat)
  /-- KEY.HEADER_RANGES / KEY.SAMPLED_RANGES / KEY.PRUNED_RANGES as ascending sets of heights -/
  stored : List Nat
  sampled : List Nat
  pruned : List Nat
  /-- STORE.SAMPLING_METADATA: height ↦ cids, ascending height -/
  smeta : List (Nat × List Nat)
  deriving DecidableEq, Repr

def St.empty : St :=
  { opened := false, identity := 0, headers := [], heights := [], stored := [], sampled := [],
    pruned := [], smeta := [] }

/-! ### sorted-list sets and maps -/

def setInsert (x : Nat) : List Nat → List Nat
  | [] => [x]
  | y :: r => if x < y then x :: y :: r else if x = y then y :: r else y :: setInsert x r

def setRemove (x : Nat) (s : List Nat) : List Nat := s.filter (fun y => y != x)

def rangeList (a b : Nat) : List Nat := (List.range (b + 1 - a)).map (fun i => a + i)

def setInsertRange (a b : Nat) (s : List Nat) : List Nat := (rangeList a b).foldl (fun s x => setInsert x s) s
def setRemoveRange (a b : Nat) (s : List Nat) : List Nat := s.filter (fun y => !(decide (a ≤ y) && decide (y ≤ b)))

def mapInsert {α : Type} (k : Nat) (v : α) : List (Nat × α) → List (Nat × α)
  | [] => [(k, v)]
  | e :: r => if k < e.1 then (k, v) :: e :: r else if k = e.1 then (k, v) :: r else e :: mapInsert k v r

def mapGet {α : Type} (k : Nat) : List (Nat × α) → Option α
  | [] => none
  | e :: r => if e.1 = k then some e.2 else mapGet k r

def mapRemove {α : Type} (k : Nat) (m : List (Nat × α)) : List (Nat × α) := m.filter (fun e => e.1 != k)

/-- order of the dump of STORE.HEIGHTS: by height, then by name -/
def hLt (a b : String × Nat) : Bool := decide (a.2 < b.2) || (decide (a.2 = b.2) && decide (a.1 < b.1))

def heightsInsert (e : String × Nat) : List (String × Nat) → List (String × Nat)
  | [] => [e]
  | f :: r => if hLt e f then e :: f :: r else f :: heightsInsert e r

/-! ### the operations -/

/-- `verify_adjacent_range` on generator-made headers: consecutive heights, each pointing to
    the one before -/
def verifyBatch : List Hdr → Bool
  | [] => true
  | [_] => true
  | a :: b :: rest => decide (b.height = a.height + 1) && decide (b.parent = a.name) && verifyBatch (b :: rest)

/-- `check_insertion_constraints` at set level: `(prev_exists, next_exists)` -/
def constraints (stored : List Nat) (a b : Nat) : Except Err (Bool × Bool) :=
  if !(decide (a > 0) && decide (a ≤ b)) then .error .constraints
  else if stored.any (fun h => decide (a ≤ h) && decide (h ≤ b)) then .error .constraints
  else
    let prev := stored.contains (a - 1)
    let next := stored.contains (b + 1)
    match stored.getLast? with
    | none => .ok (false, false)
    | some head =>
      if head < a then .ok (prev, false)
      else if prev || next then .ok (prev, next)
      else .error .constraints

/-- `verify_against_neighbours` -/
def neighbours (headers : List (Nat × Hdr)) (lowest highest : Option Hdr) : Except Err Unit :=
  let r1 : Except Err Unit :=
    match lowest with
    | none => .ok ()
    | some lo =>
      match mapGet (lo.height - 1) headers with
      | none => .error .storedData
      | some p => if lo.parent = p.name then .ok () else .error .neighbors
  match r1 with
  | .error e => .error e
  | .ok () =>
    match highest with
    | none => .ok ()
    | some hi =>
      match mapGet (hi.height + 1) headers with
      | none => .error .storedData
      | some n => if n.parent = hi.name then .ok () else .error .neighbors

/-- the `for header in headers` loop of `insert` -/
def insertHeaders : List Hdr → St → Except Err St
  | [], st => .ok st
  | h :: rest, st =>
    if (mapGet h.height st.headers).isSome then .error .storedData
    else if st.heights.any (fun e => e.1 = h.name) then .error .hashExists
    else insertHeaders rest { st with headers := mapInsert h.height h st.headers
                                      heights := heightsInsert (h.name, h.height) st.heights }

/-- closure of `RedbStore::insert` -/
def insertTx (hs : List Hdr) (st : St) : Except Err St :=
  match hs.head?, hs.getLast? with
  | some head, some tail =>
    let a := head.height
    let b := tail.height
    match constraints st.stored a b with
    | .error e => .error e
    | .ok (prev, next) =>
      match neighbours st.headers (if prev then some head else none) (if next then some tail else none) with
      | .error e => .error e
      | .ok () =>
        match insertHeaders hs st with
        | .error e => .error e
        | .ok st1 =>
          .ok { st1 with stored := setInsertRange a b st1.stored
                         sampled := setRemoveRange a b st1.sampled
                         pruned := setRemoveRange a b st1.pruned }
  | _, _ => .ok st

/-- closure of `mark_as_sampled` -/
def markSampledTx (h : Nat) (st : St) : Except Err St :=
  if !st.stored.contains h then .error .notFound
  else .ok { st with sampled := setInsert h st.sampled }

/-- closure of `update_sampling_metadata`: append the cids not yet present -/
def updateMetaTx (h : Nat) (cids : List Nat) (st : St) : Except Err St :=
  if !st.stored.contains h then .error .notFound
  else
    let entry := match mapGet h st.smeta with
      | some prev => cids.foldl (fun acc c => if acc.contains c then acc else acc ++ [c]) prev
      | none => cids
    .ok { st with smeta := mapInsert h entry st.smeta }

/-- closure of `remove_height` -/
def removeTx (h : Nat) (st : St) : Except Err St :=
  if !st.stored.contains h then .error .notFound
  else
    match mapGet h st.headers with
    | none => .error .storedData
    | some hdr =>
      if !st.heights.any (fun e => e.1 = hdr.name) then .error .storedData
      else
        .ok { st with headers := mapRemove h st.headers
                      heights := st.heights.filter (fun e => e.1 != hdr.name)
                      smeta := mapRemove h st.smeta
                      stored := setRemove h st.stored
                      sampled := setRemove h st.sampled
                      pruned := setInsert h st.pruned }

/-- closure of `RedbStore::new` on an empty or an already initialised (v3) database; `newId` is
    the identity that is generated if none is stored -/
def openTx (newId : Nat) (st : St) : Except Err St :=
  .ok { st with opened := true, identity := if st.identity = 0 then newId else st.identity }

end Lumina.Model.CrashStore

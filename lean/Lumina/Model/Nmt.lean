/-
  Model of `nmt-rs` 0.2.5 as lumina uses it (namespaced merkle tree, NS_SIZE = 29).

  One Lean function per Rust function, parametric in the underlying 32-byte hash
  `H : Bytes → Bytes` (drivers instantiate it with `Lumina.Model.Sha256.hash`, theorems take
  collision-freeness hypotheses on `H`).

    nmt-rs src/namespaced_hash.rs      NamespacedHash layout, NamespacedSha2Hasher::{hash_leaf_with_namespace,
                                       hash_nodes (incl. its PANIC), EMPTY_ROOT}, NamespacedHash::contains
    nmt-rs src/simple_merkle/utils.rs  compute_num_left_siblings, compute_tree_size
    nmt-rs src/simple_merkle/tree.rs   next_smaller_po2, compute_root, build_range_proof(_inner),
                                       check_range_proof(_inner)
    nmt-rs src/lib.rs                  check_proof_completeness, NamespaceMerkleTree::{push_leaf order check,
                                       check_range_proof, get_namespace_proof, verify_namespace}
    nmt-rs src/nmt_proof.rs            NamespaceProof::{verify_range, verify_complete_namespace}
    lumina types/src/nmt/namespace_proof.rs   TryFrom<RawProof>, total_leaves

  Outcomes are `Except Err α`; `Err.panic` is the distinguished outcome "the Rust code panics"
  (debug profile, i.e. with overflow checks), the other constructors are `RangeProofError` kinds.
  Import-free apart from `Lumina.Model.Util` (itself import-free), so drivers link.

  Owner: group D.  Other agents: import, do not edit; additions only.
-/
import Lumina.Model.Util

namespace Lumina.Model.Nmt
open Lumina.Util

/-- `NS_SIZE` of lumina (`types/src/nmt.rs`): 1 version byte + 28 id bytes -/
def NS_SIZE : Nat := 29
/-- `HASH_LEN` of nmt-rs -/
def HASH_LEN : Nat := 32
/-- `NamespacedHash::<29>::size()` -/
def NAMESPACED_HASH_SIZE : Nat := 2 * NS_SIZE + HASH_LEN

/-- the underlying hash (sha256 in the implementation) -/
abbrev HashFn := Bytes → Bytes

/-- `RangeProofError` kinds of nmt-rs, plus the two non-error outcomes of the model -/
inductive Err where
  | noLeavesProvided
  | wrongAmountOfLeavesProvided
  | invalidRoot
  | missingLeaf
  | missingProofNode
  | treeDoesNotContainLeaf
  | treeTooLarge
  | malformedTree
  | malformedProof
  /-- the Rust code panics (hash_nodes order panic, slice index out of bounds, debug overflow) -/
  | panic
  /-- the model's recursion fuel ran out: unreachable (fuel is always ≥ the subtree size) -/
  | fuel
  deriving DecidableEq, Repr, Inhabited

def Err.kind : Err → String
  | .noLeavesProvided => "NoLeavesProvided"
  | .wrongAmountOfLeavesProvided => "WrongAmountOfLeavesProvided"
  | .invalidRoot => "InvalidRoot"
  | .missingLeaf => "MissingLeaf"
  | .missingProofNode => "MissingProofNode"
  | .treeDoesNotContainLeaf => "TreeDoesNotContainLeaf"
  | .treeTooLarge => "TreeTooLarge"
  | .malformedTree => "MalformedTree"
  | .malformedProof => "MalformedProof"
  | .panic => "panic"
  | .fuel => "model-fuel"

/-! ## Namespace ids: byte-lexicographic order (derived `Ord` on `[u8; N]`) -/

/-- strict lexicographic order on byte strings -/
def ltB : Bytes → Bytes → Bool
  | [], [] => false
  | [], _ :: _ => true
  | _ :: _, [] => false
  | a :: as, b :: bs => if a < b then true else if a = b then ltB as bs else false

def leB (a b : Bytes) : Bool := !ltB b a

def minB (a b : Bytes) : Bytes := if leB a b then a else b
def maxB (a b : Bytes) : Bytes := if leB a b then b else a

/-- `NamespaceId::MAX_ID`: 29 × 0xff — the parity-share namespace of Celestia -/
def maxNsId : Bytes := List.replicate NS_SIZE 255

/-! ## NamespacedHash -/

/-- `NamespacedHash<29>`: min namespace ‖ max namespace ‖ 32-byte hash -/
structure NsHash where
  minNs : Bytes
  maxNs : Bytes
  hash : Bytes
  deriving DecidableEq, Repr, Inhabited

/-- `NamespacedHash::iter().collect()` / lumina `to_array`/`to_vec` -/
def NsHash.toBytes (h : NsHash) : Bytes := h.minNs ++ h.maxNs ++ h.hash

/-- `TryFrom<&[u8]> for NamespacedHash` (lumina `NamespacedHashExt::from_raw`) -/
def NsHash.ofBytes? (b : Bytes) : Option NsHash :=
  if b.length = NAMESPACED_HASH_SIZE then
    some ⟨b.take NS_SIZE, (b.drop NS_SIZE).take NS_SIZE, b.drop (2 * NS_SIZE)⟩
  else none

/-- well-formedness of sizes: what the Rust array types guarantee -/
def NsHash.WF (h : NsHash) : Prop :=
  h.minNs.length = NS_SIZE ∧ h.maxNs.length = NS_SIZE ∧ h.hash.length = HASH_LEN

instance (h : NsHash) : Decidable h.WF := by unfold NsHash.WF; exact inferInstance

/-- `MerkleHash::EMPTY_ROOT`: zero namespaces, hash = H("") (the constant in the Rust source is sha256 of the
    empty string; validated by the correspondence) -/
def emptyRoot (H : HashFn) : NsHash := ⟨List.replicate NS_SIZE 0, List.replicate NS_SIZE 0, H []⟩

def NsHash.isEmptyRoot (H : HashFn) (h : NsHash) : Bool := h == emptyRoot H

/-- `NamespacedHash::contains` -/
def NsHash.contains (H : HashFn) (h : NsHash) (ns : Bytes) : Bool :=
  leB h.minNs ns && leB ns h.maxNs && !h.isEmptyRoot H

/-- lumina `NamespacedHashExt::validate_namespace_order` as a Bool -/
def NsHash.orderOk (h : NsHash) : Bool := leB h.minNs h.maxNs

/-! ## The namespaced hasher -/

/-- `LEAF_DOMAIN_SEPARATOR` -/
def LEAF_PREFIX : UInt8 := 0
/-- `INTERNAL_NODE_DOMAIN_SEPARATOR` -/
def NODE_PREFIX : UInt8 := 1

/-- `hash_leaf_with_namespace(data, namespace)`: range = [ns, ns], hash = H(0x00 ‖ ns ‖ data) -/
def hashLeaf (H : HashFn) (ns data : Bytes) : NsHash :=
  ⟨ns, ns, H (LEAF_PREFIX :: (ns ++ data))⟩

/-- `MerkleHash::hash_leaf(data)`: namespace = first 29 bytes of the data (panics when shorter),
    hash = H(0x00 ‖ data) -/
def hashLeafRaw (H : HashFn) (data : Bytes) : Except Err NsHash :=
  if data.length < NS_SIZE then .error .panic
  else .ok ⟨data.take NS_SIZE, data.take NS_SIZE, H (LEAF_PREFIX :: data)⟩

/-- `hash_nodes(left, right)`; PANICS when `left.max_namespace() > right.min_namespace()` -/
def hashNodes (H : HashFn) (ignoreMaxNs : Bool) (l r : NsHash) : Except Err NsHash :=
  if ltB r.minNs l.maxNs then .error .panic
  else
    let minNs := minB l.minNs r.minNs
    let maxNs :=
      if ignoreMaxNs && l.minNs == maxNsId then maxNsId
      else if ignoreMaxNs && r.minNs == maxNsId then l.maxNs
      else maxB l.maxNs r.maxNs
    .ok ⟨minNs, maxNs, H (NODE_PREFIX :: (l.toBytes ++ r.toBytes))⟩

/-! ## simple_merkle: tree shape helpers -/

def nextPowerOfTwoAux (n : Nat) : Nat → Nat → Nat
  | 0, p => p
  | fuel + 1, p => if n ≤ p then p else nextPowerOfTwoAux n fuel (2 * p)

/-- `usize::next_power_of_two` (0 ↦ 1) -/
def nextPowerOfTwo (n : Nat) : Nat := nextPowerOfTwoAux n n 1

/-- `next_smaller_po2`: the largest power of two strictly less than the argument (0,1 ↦ 0) -/
def nextSmallerPo2 (n : Nat) : Nat := nextPowerOfTwo n / 2

def popcountAux : Nat → Nat → Nat
  | 0, _ => 0
  | fuel + 1, n => if n = 0 then 0 else n % 2 + popcountAux fuel (n / 2)

/-- `compute_num_left_siblings`: number of ones in the binary representation -/
def computeNumLeftSiblings (idx : Nat) : Nat := popcountAux idx idx

def U32_MAX : Nat := 4294967295
def USIZE_MOD : Nat := 18446744073709551616

/-- loop of `compute_tree_size`; `mask` is a 64-bit `usize` (shifts wrap to 0) -/
def computeTreeSizeAux : Nat → Nat → Nat → Nat → Except Err Nat
  | 0, _, _, _ => .error .fuel
  | fuel + 1, remaining, idx, mask =>
    if remaining = 0 then .ok (idx + 1)
    else
      -- `index_of_final_node & mask == 0` (always true once the mask has been shifted out to 0)
      let hit : Bool := if mask = 0 then true else (idx / mask) % 2 == 0
      let idx' := if hit then idx + mask else idx
      let remaining' := if hit then remaining - 1 else remaining
      let mask' := (mask * 2) % USIZE_MOD
      if idx' = U32_MAX then .error .treeTooLarge
      else computeTreeSizeAux fuel remaining' idx' mask'

/-- `compute_tree_size(num_right_siblings, index_of_last_included_leaf)` -/
def computeTreeSize (numRight last : Nat) : Except Err Nat :=
  computeTreeSizeAux (numRight + 70) numRight last 1

/-! ## simple_merkle: root and range proofs -/

def computeRootAux (H : HashFn) (ign : Bool) : Nat → List NsHash → Except Err NsHash
  | 0, _ => .error .fuel
  | fuel + 1, ls =>
    match ls with
    | [] => .ok (emptyRoot H)
    | [x] => .ok x
    | _ =>
      let k := nextSmallerPo2 ls.length
      match computeRootAux H ign fuel (ls.take k) with
      | .error e => .error e
      | .ok l =>
        match computeRootAux H ign fuel (ls.drop k) with
        | .error e => .error e
        | .ok r => hashNodes H ign l r

/-- `MerkleTree::compute_root(0..len)` over the leaf hashes -/
def computeRoot (H : HashFn) (ign : Bool) (ls : List NsHash) : Except Err NsHash :=
  computeRootAux H ign (ls.length + 1) ls

/-- `build_range_proof_inner`: `ls` are the leaf hashes of the subtrie starting at absolute index
    `off`; `[s, e)` is the absolute range to prove.  Returns the siblings in in-order. -/
def buildRangeProofAux (H : HashFn) (ign : Bool) : Nat → List NsHash → Nat → Nat → Nat → Except Err (List NsHash)
  | 0, _, _, _, _ => .error .fuel
  | fuel + 1, ls, off, s, e =>
    match ls with
    | [] => .ok [emptyRoot H]
    | [x] => .ok (if s ≤ off ∧ off < e then [] else [x])
    | _ =>
      let k := nextSmallerPo2 ls.length
      let split := off + k
      let subEnd := off + ls.length
      let left : Except Err (List NsHash) :=
        if s ≥ split then (computeRoot H ign (ls.take k)).map (fun x => [x])
        else if s > off ∨ e < split then buildRangeProofAux H ign fuel (ls.take k) off s e
        else .ok []
      let right : Except Err (List NsHash) :=
        if e ≤ split then (computeRoot H ign (ls.drop k)).map (fun x => [x])
        else if s > split ∨ e < subEnd then buildRangeProofAux H ign fuel (ls.drop k) split s e
        else .ok []
      match left with
      | .error er => .error er
      | .ok l =>
        match right with
        | .error er => .error er
        | .ok r => .ok (l ++ r)

/-- `MerkleTree::build_range_proof(s..e)`: panics when `e > len` (and when computing the root panics) -/
def buildRangeProof (H : HashFn) (ign : Bool) (ls : List NsHash) (s e : Nat) : Except Err (List NsHash) :=
  match computeRoot H ign ls with
  | .error er => .error er
  | .ok _ =>
    if e > ls.length then .error .panic
    else buildRangeProofAux H ign (ls.length + 1) ls 0 s e

/-- `slice_take_last` -/
def takeLast? {α} (l : List α) : Option (α × List α) :=
  match l.getLast? with
  | none => none
  | some x => some (x, l.dropLast)

/-- `check_range_proof_inner`; returns the computed subtree root and the remaining (unconsumed) leaves
    and proof nodes.  `leaves.len() + leaves_start_idx - 1` underflows (debug panic) when both are 0. -/
def checkRangeProofInner (H : HashFn) (ign : Bool) :
    Nat → List NsHash → List NsHash → Nat → Nat → Nat → Except Err (NsHash × List NsHash × List NsHash)
  | 0, _, _, _, _, _ => .error .fuel
  | fuel + 1, leaves, proof, start, size, offset =>
    let split := nextSmallerPo2 size
    if leaves.length + start = 0 then .error .panic
    else
      let endIdx := leaves.length + start - 1
      let rightRes : Except Err (NsHash × List NsHash × List NsHash) :=
        if endIdx ≥ split + offset then
          let rsize := size - split
          if rsize = 1 then
            match takeLast? leaves with
            | none => .error .missingLeaf
            | some (x, rest) => .ok (x, rest, proof)
          else checkRangeProofInner H ign fuel leaves proof start rsize (offset + split)
        else
          match takeLast? proof with
          | none => .error .missingProofNode
          | some (x, rest) => .ok (x, leaves, rest)
      match rightRes with
      | .error e => .error e
      | .ok (right, leaves1, proof1) =>
        let leftRes : Except Err (NsHash × List NsHash × List NsHash) :=
          if start < split + offset then
            if split = 1 then
              match takeLast? leaves1 with
              | none => .error .missingLeaf
              | some (x, rest) => .ok (x, rest, proof1)
            else checkRangeProofInner H ign fuel leaves1 proof1 start split offset
          else
            match takeLast? proof1 with
            | none => .error .missingProofNode
            | some (x, rest) => .ok (x, leaves1, rest)
        match leftRes with
        | .error e => .error e
        | .ok (left, leaves2, proof2) =>
          match hashNodes H ign left right with
          | .error e => .error e
          | .ok h => .ok (h, leaves2, proof2)

/-- `MerkleTree::check_range_proof(root, leaves, proof, leaves_start_idx)` (simple_merkle) -/
def checkRangeProof (H : HashFn) (ign : Bool) (root : NsHash) (leaves proof : List NsHash) (start : Nat) :
    Except Err Unit :=
  if leaves.length = 0 then
    if root == emptyRoot H && proof.isEmpty then .ok () else .error .noLeavesProvided
  else if leaves.length = 1 ∧ proof.isEmpty then
    if leaves.head? == some root && start == 0 then .ok () else .error .treeDoesNotContainLeaf
  else
    let numLeft := computeNumLeftSiblings start
    if proof.length < numLeft then .error .missingProofNode
    else
      let numRight := proof.length - numLeft
      match computeTreeSize numRight (start + leaves.length - 1) with
      | .error e => .error e
      | .ok treeSize =>
        match checkRangeProofInner H ign treeSize leaves proof start treeSize 0 with
        | .error e => .error e
        | .ok (computed, _, _) => if computed == root then .ok () else .error .invalidRoot

/-! ## nmt: namespace-aware checks -/

/-- `check_proof_completeness`; `true` = Complete, `false` = Partial.  PANICS (slice index out of bounds /
    debug subtraction overflow) when `num_left_siblings > proof.len()`. -/
def checkProofCompleteness (leaves proof : List NsHash) (numLeft : Nat) : Except Err Bool :=
  if numLeft ≠ 0 ∧ proof.length < numLeft then .error .panic
  else
    let c1 : Bool :=
      if numLeft ≠ 0 then
        match proof[numLeft - 1]?, leaves.head? with
        | some sib, some first => ltB sib.maxNs first.minNs   -- Partial when sib.max >= first.min
        | _, _ => true
      else true
    let numRight := proof.length - numLeft
    let c2 : Bool :=
      if numRight ≠ 0 then
        match proof[numLeft]?, leaves.getLast? with
        | some sib, some last => ltB last.maxNs sib.minNs     -- Partial when sib.min <= last.max
        | _, _ => true
      else true
    .ok (c1 && c2)

/-- `NamespaceMerkleTree::check_range_proof`; result `true` = Complete -/
def nmtCheckRangeProof (H : HashFn) (ign : Bool) (root : NsHash) (leaves proof : List NsHash) (start : Nat) :
    Except Err Bool :=
  if leaves.length = 0 then
    if root == emptyRoot H && proof.isEmpty then .ok true else .error .noLeavesProvided
  else if leaves.length = 1 ∧ proof.isEmpty then
    if leaves.head? == some root && start == 0 then .ok true else .error .treeDoesNotContainLeaf
  else if proof.any (fun h => ltB h.maxNs h.minNs) then .error .malformedTree
  else
    let numLeft := computeNumLeftSiblings start
    match checkProofCompleteness leaves proof numLeft with
    | .error e => .error e
    | .ok complete =>
      match checkRangeProof H ign root leaves proof start with
      | .error e => .error e
      | .ok () => .ok complete

/-- `nmt_rs::NamespaceProof<_, 29>` with its inner `Proof { siblings, range: start..end_ }`.
    `isAbsence = false`: `PresenceProof` (then `leaf` is ignored); `true`: `AbsenceProof { leaf }`. -/
structure NsProof where
  start : Nat
  end_ : Nat
  siblings : List NsHash
  ignoreMaxNs : Bool
  isAbsence : Bool
  leaf : Option NsHash
  deriving DecidableEq, Repr, Inhabited

/-- `Proof::range_len`: `end.saturating_sub(start)` -/
def NsProof.rangeLen (p : NsProof) : Nat := p.end_ - p.start

/-- `NamespaceProof::verify_range(root, raw_leaves, leaf_namespace)` -/
def verifyRange (H : HashFn) (p : NsProof) (root : NsHash) (rawLeaves : List Bytes) (ns : Bytes) :
    Except Err Unit :=
  if p.isAbsence then .error .malformedProof
  else if rawLeaves.length ≠ p.rangeLen then .error .wrongAmountOfLeavesProvided
  else
    let leafHashes := rawLeaves.map (hashLeaf H ns)
    checkRangeProof H p.ignoreMaxNs root leafHashes p.siblings p.start

/-- `NamespaceMerkleTree::verify_namespace` -/
def verifyNamespace (H : HashFn) (p : NsProof) (root : NsHash) (rawLeaves : List Bytes) (ns : Bytes) :
    Except Err Unit :=
  if root.isEmptyRoot H && rawLeaves.isEmpty then .ok ()
  else if p.isAbsence then
    if !root.contains H ns then .ok ()
    else
      match p.leaf with
      | none => .error .malformedProof
      | some leaf =>
        if !rawLeaves.isEmpty then .error .malformedProof
        else if leB leaf.minNs ns then .error .malformedProof
        else
          let numLeft := computeNumLeftSiblings p.start
          if numLeft > 0 ∧ p.siblings.length < numLeft then .error .panic   -- siblings[num_left - 1] out of bounds
          else
            let bad : Bool :=
              if numLeft > 0 then
                match p.siblings[numLeft - 1]? with
                | some sib => leB ns sib.maxNs
                | none => false
              else false
            if bad then .error .malformedProof
            else checkRangeProof H p.ignoreMaxNs root [leaf] p.siblings p.start
  else
    if !root.contains H ns then .error .treeDoesNotContainLeaf
    else
      let leafHashes := rawLeaves.map (hashLeaf H ns)
      match nmtCheckRangeProof H p.ignoreMaxNs root leafHashes p.siblings p.start with
      | .error e => .error e
      | .ok complete => if complete then .ok () else .error .missingLeaf

/-- `NamespaceProof::verify_complete_namespace(root, raw_leaves, namespace)` -/
def verifyCompleteNamespace (H : HashFn) (p : NsProof) (root : NsHash) (rawLeaves : List Bytes) (ns : Bytes) :
    Except Err Unit :=
  if !p.isAbsence && rawLeaves.length ≠ p.rangeLen then .error .wrongAmountOfLeavesProvided
  else verifyNamespace H p root rawLeaves ns

/-! ## tree construction side (honest prover) -/

/-- the order check of `NamespaceMerkleTree::push_leaf` over a whole list of leaf namespaces:
    `true` iff no leaf has a namespace smaller than its predecessor (`highest_ns` starts at all-zero) -/
def pushOrderOk : Bytes → List Bytes → Bool
  | _, [] => true
  | hi, ns :: rest => if ltB ns hi then false else pushOrderOk ns rest

/-- leaf hashes of a tree built by `push_leaf(data, ns)` for each `(ns, data)`; `none` when `push_leaf`
    returns `Err("Leaves' namespaces should be inserted in ascending order")` -/
def pushLeaves (H : HashFn) (leaves : List (Bytes × Bytes)) : Option (List NsHash) :=
  if pushOrderOk (List.replicate NS_SIZE 0) (leaves.map Prod.fst) then
    some (leaves.map (fun (ns, d) => hashLeaf H ns d))
  else none

/-- number of leaves with namespace strictly below `ns` (the insertion point that
    `binary_search_by(|l| l.min_namespace().cmp(&ns))` returns for a sorted list not containing `ns`) -/
def lowerBound (nss : List Bytes) (ns : Bytes) : Nat := (nss.takeWhile (fun x => ltB x ns)).length

/-- `namespace_ranges.get(ns)`: first index and one-past-last index of the leaves with namespace `ns`
    (leaves are sorted), `none` when there is none -/
def namespaceRange (nss : List Bytes) (ns : Bytes) : Option (Nat × Nat) :=
  let s := lowerBound nss ns
  let n := ((nss.drop s).takeWhile (fun x => x == ns)).length
  if n = 0 then none else some (s, s + n)

/-- `NamespaceMerkleTree::get_namespace_proof(ns)` for a tree with the given `(namespace, data)` leaves
    (sorted, as `push_leaf` enforces) -/
def getNamespaceProof (H : HashFn) (ign : Bool) (leaves : List (Bytes × Bytes)) (ns : Bytes) :
    Except Err NsProof :=
  let hashes := leaves.map (fun (n, d) => hashLeaf H n d)
  let nss := leaves.map Prod.fst
  match computeRoot H ign hashes with
  | .error e => .error e
  | .ok root =>
    if !root.contains H ns then .ok ⟨0, 0, [], ign, true, none⟩
    else
      match namespaceRange nss ns with
      | some (s, e) =>
        match buildRangeProof H ign hashes s e with
        | .error er => .error er
        | .ok sibs => .ok ⟨s, e, sibs, ign, false, none⟩
      | none =>
        let idx := lowerBound nss ns
        match buildRangeProof H ign hashes idx (idx + 1), hashes[idx]? with
        | .error er, _ => .error er
        | .ok _, none => .error .panic
        | .ok sibs, some lf => .ok ⟨idx, idx + 1, sibs, ign, true, some lf⟩

/-! ## lumina's wrapper: `celestia_types::nmt::NamespaceProof` -/

/-- `nodes.iter().map(NamespacedHash::from_raw).collect::<Result<Vec<_>>>()` -/
def parseNodes : List Bytes → Option (List NsHash)
  | [] => some []
  | b :: rest =>
    match NsHash.ofBytes? b, parseNodes rest with
    | some h, some hs => some (h :: hs)
    | _, _ => none

/-- `TryFrom<RawProof> for NamespaceProof`: nodes must be 90 bytes each; `start`/`end` are i64 on the
    wire and are cast with `as u32` (given here already reduced mod 2^32); a non-empty `leaf_hash` turns the
    proof into an absence proof.  `none` = `Error` (invalid namespaced hash). -/
def NsProof.ofRaw (start end_ : Nat) (nodes : List Bytes) (leafHash : Bytes) (ign : Bool) : Option NsProof :=
  match parseNodes nodes with
  | none => none
  | some sibs =>
    if leafHash.isEmpty then some ⟨start % 4294967296, end_ % 4294967296, sibs, ign, false, none⟩
    else
      match NsHash.ofBytes? leafHash with
      | none => none
      | some lf => some ⟨start % 4294967296, end_ % 4294967296, sibs, ign, true, some lf⟩

/-- `NamespaceProof::total_leaves` (lumina): `Some(1 << siblings.len())` for single-leaf proofs with fewer than
    64 siblings (checked shift, since /repo commit 07cb5f3), `None` otherwise.  (Before that commit the shift
    panicked in debug builds for 64 or more siblings.)  The `Except` wrapper is kept for compatibility; it never fails. -/
def NsProof.totalLeaves (p : NsProof) : Except Err (Option Nat) :=
  if p.end_ - p.start = 1 then
    if p.siblings.length ≥ 64 then .ok none else .ok (some (2 ^ p.siblings.length))
  else .ok none

/-- `siblings.windows(2).any(|pair| pair[0].max_namespace() > pair[1].min_namespace())` -/
def adjacentBad : List NsHash → Bool
  | a :: b :: rest => ltB b.minNs a.maxNs || adjacentBad (b :: rest)
  | _ => false

/-- lumina `NamespaceProof::validate_shape(first_namespace, last_namespace)` (types/src/nmt/namespace_proof.rs,
    since /repo commit 07cb5f3): shape checks done BEFORE the proof is handed to nmt-rs; every failure is
    `RangeProofError::MalformedProof` -/
def validateShape (p : NsProof) (first last : Bytes) : Except Err Unit :=
  let numLeft := computeNumLeftSiblings p.start
  if numLeft > p.siblings.length then .error .malformedProof
  else if p.siblings.any (fun n => ltB n.maxNs n.minNs) then .error .malformedProof
  else if adjacentBad p.siblings then .error .malformedProof
  else if (if numLeft ≠ 0 then
             match p.siblings[numLeft - 1]? with
             | some l => ltB first l.maxNs
             | none => false
           else false) then .error .malformedProof
  else if (match p.siblings[numLeft]? with
           | some r => ltB r.minNs last
           | none => false) then .error .malformedProof
  else .ok ()

/-- lumina's inherent `NamespaceProof::verify_range` (shadows the nmt-rs method) -/
def luminaVerifyRange (H : HashFn) (p : NsProof) (root : NsHash) (rawLeaves : List Bytes) (ns : Bytes) :
    Except Err Unit :=
  match validateShape p ns ns with
  | .error e => .error e
  | .ok () => verifyRange H p root rawLeaves ns

/-- the shape validation `verify_complete_namespace` does first: an absence proof with a leaf is validated with the
    leaf's own namespace range in place of the requested namespace -/
def completeNamespaceShape (p : NsProof) (ns : Bytes) : Except Err Unit :=
  match (if p.isAbsence then p.leaf else none) with
  | some leaf =>
    if ltB leaf.maxNs leaf.minNs then .error .malformedProof
    else validateShape p leaf.minNs leaf.maxNs
  | none => validateShape p ns ns

/-- lumina's inherent `NamespaceProof::verify_complete_namespace` -/
def luminaVerifyCompleteNamespace (H : HashFn) (p : NsProof) (root : NsHash) (rawLeaves : List Bytes) (ns : Bytes) :
    Except Err Unit :=
  match completeNamespaceShape p ns with
  | .error e => .error e
  | .ok () => verifyCompleteNamespace H p root rawLeaves ns

end Lumina.Model.Nmt

/-
  The constants `ExtendedHeader::validate` depends on, assembled from the values regenerated from
  the Rust source (`Lumina.Gen.C01`) the way the source combines them:
  `AppVersion::from_u64` (which numbers are versions), `square_size_upper_bound` (dispatch to the
  per-version module), `vN::SQUARE_SIZE_UPPER_BOUND`, `max_extended_square_width` (× 2).
-/
import Lumina.Model.HeaderVerify
import Lumina.Gen.C01

namespace Lumina.Model.HeaderVerify
open Lumina.Gen.C01

def squareUpperOfSource : List (Nat × Nat) :=
  FROM_U64_TABLE.filterMap (fun (n, v) =>
    (UPPER_BOUND_DISPATCH.lookup v).bind (fun m =>
      (SQUARE_SIZE_UPPER_BOUND_TABLE.lookup m).map (fun w => (n, w))))

def sourceConsts : Consts :=
  { blockProtocol := BLOCK_PROTOCOL
    maxChainIdLen := MAX_CHAIN_ID_LEN
    genesisHeight := GENESIS_HEIGHT
    minExtWidth := MIN_EXTENDED_SQUARE_WIDTH
    squareUpper := squareUpperOfSource
    extFactor := EXT_FACTOR
    lightNum := LIGHT_NUM
    lightDen := LIGHT_DEN }

end Lumina.Model.HeaderVerify

/-
  Model of `node/src/p2p/header_session.rs` (`HeaderSession`) — import-free.

  Rust                                   Lean
  ------------------------------------   --------------------------------------
  `BlockRangeExt::len`                   `rangeLen` (+ `lenPanics`: the checked `difference + 1`)
  `u64::div_ceil`, `Ord::clamp`          `divCeil`, `clamp`
  `HeaderSession::new` (batch size)      `batchSize`, `new`
  `take_next_batch`                      `takeNextBatch`
  `send_request` / `send_next_request`   `sendRequest` / `sendNextRequest`
  the 8 initial `send_next_request`s     `init`
  one iteration of `while let Some(..) = self.tasks.next().await`
                                         `step` (one event = one completed task; the scheduler —
                                         `FuturesUnordered` + the peers — is the *event list*)
  the final sort + flatten               `result`

  A header is an arbitrary `α`; the session only ever looks at the height of the FIRST header
  of a non-empty response (`ht`) and at the response's length.  Numbers are `Nat`; the two
  places where debug-build `u64` arithmetic could overflow (`difference + 1` in `len`,
  `height + headers_len` when rescheduling) are checked explicitly and lead to status
  `panicked`.  Subtractions in the Rust code are all guarded (`len() > limit`,
  `headers_len < requested_amount`) and the model keeps the same guards.
-/
namespace Lumina.Model.Session

def U64_MAX : Nat := 18446744073709551615

/-- the three constants of header_session.rs (instantiated from `Lumina.Gen.Cxx`) -/
structure Cfg where
  minAmount : Nat
  maxAmount : Nat
  maxConcurrent : Nat
  deriving Repr

/-- inclusive range `start..=end` -/
abbrev Range := Nat × Nat
/-- a header-ex request `(height, amount)` -/
abbrev Req := Nat × Nat

/-- `BlockRangeExt::len` (value) -/
def rangeLen (r : Range) : Nat := if r.1 ≤ r.2 then r.2 - r.1 + 1 else 0

/-- `difference + 1` overflows `u64` (only for `0..=u64::MAX`) -/
def lenPanics (r : Range) : Bool := decide (r.1 ≤ r.2) && decide (U64_MAX < r.2 - r.1 + 1)

/-- `u64::div_ceil` -/
def divCeil (a b : Nat) : Nat := if a % b > 0 then a / b + 1 else a / b

/-- `Ord::clamp` (for `lo ≤ hi`) -/
def clamp (x lo hi : Nat) : Nat := if x < lo then lo else if hi < x then hi else x

def batchSize (c : Cfg) (r : Range) : Nat :=
  clamp (divCeil (rangeLen r) c.maxConcurrent) c.minAmount c.maxAmount

/-- `take_next_batch`: returns (what stays in `range_to_fetch`, the batch) -/
def takeNextBatch (toFetch : Option Range) (limit : Nat) : Option Range × Option Range :=
  if limit = 0 then (toFetch, none)            -- `limit.checked_sub(1)?` before `take()`
  else match toFetch with
    | none => (none, none)
    | some r =>
      if rangeLen r ≤ limit then (none, some r)
      else (some (r.1, r.2 - limit), some (r.2 - (limit - 1), r.2))

inductive Status where
  | running
  | failed      -- `run` returned a non-HeaderEx error
  | panicked
  deriving DecidableEq, Repr

structure State (α : Type) where
  toFetch : Option Range
  batchSize : Nat
  /-- outstanding tasks `(height, requested_amount)` in issue order -/
  tasks : List Req
  /-- non-empty responses in arrival order -/
  responses : List (List α)
  status : Status
  deriving DecidableEq

variable {α : Type}

def sendRequest (s : State α) (h a : Nat) : State α :=
  { s with tasks := s.tasks ++ [(h, a)] }

def sendNextRequest (s : State α) : State α :=
  match takeNextBatch s.toFetch s.batchSize with
  | (tf, some b) => sendRequest { s with toFetch := tf } b.1 (rangeLen b)
  | (tf, none) => { s with toFetch := tf }

def new (c : Cfg) (r : Range) : State α :=
  { toFetch := some r, batchSize := batchSize c r, tasks := [], responses := [],
    status := if lenPanics r then .panicked else .running }

/-- `HeaderSession::new` followed by the `MAX_CONCURRENT_REQS` initial `send_next_request`s -/
def init (c : Cfg) (r : Range) : State α :=
  let s : State α := new c r
  if s.status = .running then Nat.repeat sendNextRequest c.maxConcurrent s else s

/-- one completed task.  The task is named by its `(height, amount)`; an event that names a task
    which is not outstanding is ignored. -/
inductive Ev (α : Type) where
  | ok (h a : Nat) (hs : List α)      -- `Ok(headers)`
  | err (h a : Nat)                    -- `Err(P2pError::HeaderEx(_))`
  | fatal (h a : Nat)                  -- any other `Err(_)`

def Ev.req : Ev α → Req
  | .ok h a _ => (h, a)
  | .err h a => (h, a)
  | .fatal h a => (h, a)

def step (s : State α) (ev : Ev α) : State α :=
  if s.status = .running ∧ ev.req ∈ s.tasks then
    let s0 : State α := { s with tasks := s.tasks.erase ev.req }
    match ev with
    | .ok h a hs =>
      let s1 : State α :=
        if 0 < hs.length then { s0 with responses := s0.responses ++ [hs] } else s0
      if hs.length < a then
        -- `let height = height + headers_len;` (checked) `let amount = requested_amount - headers_len;`
        if U64_MAX < h + hs.length then { s1 with status := .panicked }
        else sendRequest s1 (h + hs.length) (a - hs.length)
      else sendNextRequest s1
    | .err h a => sendRequest s0 h a
    | .fatal _ _ => { s0 with status := .failed }
  else s

def run (s : State α) (evs : List (Ev α)) : State α := evs.foldl step s

/-- sort key of a span: the height of its first header (`expect` on an empty span: never
    reached, empty responses are not stored) -/
def spanKey (ht : α → Nat) : List α → Nat
  | [] => 0
  | x :: _ => ht x

/-- insert a span before the first span whose key is not smaller -/
def insertSpan (ht : α → Nat) (sp : List α) : List (List α) → List (List α)
  | [] => [sp]
  | x :: xs => if spanKey ht sp ≤ spanKey ht x then sp :: x :: xs else x :: insertSpan ht sp xs

/-- (stable) insertion sort by `spanKey`; structural, so it evaluates in the kernel -/
def sortSpans (ht : α → Nat) : List (List α) → List (List α)
  | [] => []
  | x :: xs => insertSpan ht x (sortSpans ht xs)

/-- `responses.sort_unstable_by_key(first height)` then `flatten` (keys are distinct whenever
    responses are prefixes of their requests, so stability is irrelevant there) -/
def result (ht : α → Nat) (s : State α) : List α :=
  (sortSpans ht s.responses).flatten

/-- `run()` has returned `Ok(_)`: the task set drained -/
def finished (s : State α) : Bool := s.status == .running && s.tasks.isEmpty

/-- the requests issued by a step: what was appended to the task list -/
def issued (pre post : State α) (ev : Ev α) : List Req :=
  if pre.status = .running ∧ ev.req ∈ pre.tasks then post.tasks.drop (pre.tasks.erase ev.req).length
  else []

end Lumina.Model.Session

/-
  Model of the header-ex client's response acceptance — import-free.

  Rust (node/src/p2p/header_ex/…)                     Lean
  -------------------------------------------------   ---------------------------
  utils.rs  `HeaderRequestExt::is_valid`              `isValid`
  utils.rs  `HeaderRequestExt::is_head_request`       `isHeadRequest`
  utils.rs  `HeaderResponseExt::to_validated_extented_header`
                                                      `toValidated`
  client.rs `decode_and_verify_responses`             `decodeAndVerify`

  A response carries its protobuf status code and an ORACLE for its body:
  `decoded = some hdr` iff `ExtendedHeader::decode_and_validate(body)` succeeds (the harness
  computes the bit with the real function); `hdr` exposes what the client looks at afterwards:
  the height and the hash.  Hashes are opaque values compared for equality; a request's hash
  additionally has a byte length (`HASH_SIZE` check of `is_valid`).

  `startPlusAmountChecked`: how the height check treats `start + i` — see `heightsMatch`.
-/
namespace Lumina.Model.HeaderExClient

def U64_MAX : Nat := 18446744073709551615

/-- opaque hash value -/
abbrev HashV := List Nat

structure Hdr where
  height : Nat
  hash : HashV
  /-- identity of the header object (two different headers may share a height) -/
  id : Nat
  deriving DecidableEq, Repr

/-- `header_request::Data` -/
inductive ReqData where
  | none
  | origin (n : Nat)
  | hash (h : HashV) (len : Nat)
  deriving DecidableEq, Repr

structure Request where
  data : ReqData
  amount : Nat
  deriving DecidableEq, Repr

structure Resp where
  /-- raw `status_code` field (i32) -/
  status : Int
  /-- oracle: result of `ExtendedHeader::decode_and_validate(body)` -/
  decoded : Option Hdr
  deriving DecidableEq, Repr

inductive Err where
  | headerNotFound
  | invalidResponse
  | invalidRequest
  deriving DecidableEq, Repr

inductive Outcome where
  | ok (hs : List Hdr)
  | err (e : Err)
  | panic
  deriving DecidableEq, Repr

/-- `HeaderRequestExt::is_valid` (`usize::try_from(amount)` cannot fail on 64-bit targets);
    `hashSize` = `celestia_types::consts::HASH_SIZE` -/
def isValid (hashSize : Nat) (r : Request) : Bool :=
  if r.amount = 0 then false            -- `(_, 0) => false`
  else match r.data with
    | .none => false                    -- `(None, _) => false`
    | .origin n => if n = 0 then decide (r.amount ≤ 1) else true
    | .hash _ len => decide (len = hashSize) && decide (r.amount ≤ 1)

/-- `HeaderRequestExt::is_head_request` -/
def isHeadRequest (r : Request) : Bool :=
  match r.data with
  | .origin n => decide (n = 0) && decide (r.amount = 1)
  | _ => false

/-- prost's `status_code()` getter: unknown values fall back to the default `Invalid` (0);
    `Invalid = 0`, `Ok = 1`, `NotFound = 2` -/
def toValidated (r : Resp) : Except Err Hdr :=
  if r.status = 1 then
    match r.decoded with
    | some h => .ok h
    | none => .error .invalidResponse
  else if r.status = 2 then .error .headerNotFound
  else .error .invalidResponse

/-- the decoding loop: `Err(e) if headers.is_empty() => return Err(e)`, `Err(_) => break` -/
def decodeLoop : List Resp → List Hdr → Except Err (List Hdr)
  | [], acc => .ok acc
  | r :: rs, acc =>
    match toValidated r with
    | .ok h => decodeLoop rs (acc ++ [h])
    | .error e => if acc.isEmpty then .error e else .ok acc

/-- insertion sort by height (`sort_unstable_by_key`; on accepted lists heights are distinct) -/
def insertByHeight (h : Hdr) : List Hdr → List Hdr
  | [] => [h]
  | x :: xs => if h.height ≤ x.height then h :: x :: xs else x :: insertByHeight h xs

def sortByHeight : List Hdr → List Hdr
  | [] => []
  | x :: xs => insertByHeight x (sortByHeight xs)

/-- the repaired check: `start.checked_add(i) != Some(header.height())` for the `i`-th header -/
def heightsMatchFrom (start : Nat) : List Hdr → Bool
  | [] => true
  | h :: hs => decide (start ≤ U64_MAX) && decide (h.height = start) && heightsMatchFrom (start + 1) hs

/-- the pre-fix check `headers.iter().zip(start..start + amount)`: the range end is computed
    with a checked add (debug build) before the first comparison -/
def heightsMatchZip (start : Nat) (hs : List Hdr) : Option Bool :=
  if U64_MAX < start + hs.length then none
  else some ((hs.zip (List.range' start hs.length)).all (fun p => p.1.height == p.2))

/-- `decode_and_verify_responses`; `fixed = false` is the code before the `fix:` commit -/
def decodeAndVerifyG (fixed : Bool) (req : Request) (resps : List Resp) : Outcome :=
  if resps.isEmpty then .err .invalidResponse
  else if resps.length > req.amount then .err .invalidResponse
  else
    match decodeLoop resps [] with
    | .error e => .err e
    | .ok headers =>
      let hs := sortByHeight headers
      match req.data with
      | .origin start =>
        if start = 0 then
          -- `(Some(Data::Origin(0)), 1) => {}`; other lengths fall through to `_`
          if hs.length = 1 then .ok hs else .err .invalidResponse
        else if hs.length = 0 then .err .invalidResponse
        else if fixed then
          if heightsMatchFrom start hs then .ok hs else .err .invalidResponse
        else
          match heightsMatchZip start hs with
          | none => .panic
          | some true => .ok hs
          | some false => .err .invalidResponse
      | .hash h _ =>
        match hs with
        | [x] => if x.hash = h then .ok hs else .err .invalidResponse
        | _ => .err .invalidResponse
      | .none => .err .invalidResponse

/-- the code as it is now (after the `fix:` commit) -/
def decodeAndVerify (req : Request) (resps : List Resp) : Outcome := decodeAndVerifyG true req resps

end Lumina.Model.HeaderExClient

/-
  Projection of a model state of `Model/Pools.lean` onto what the C40 spec observes.
  (Import-free; used by the driver for the state before an op and by the theorems.)
-/
import Lumina.Model.Pools
import Lumina.Spec.C40

namespace Lumina.Model.Pools
open Lumina.Spec.C40

def viewPool : Pool → ObsPool
  | .candidates v c => .candidates v c
  | .validated x => .validated x

def viewEv : Ev → ObsEv
  | .addPeers ps => .add ps
  | .blockPeers ps => .block ps

def view (s : State) : Obs :=
  { head := s.subjectiveHead, pools := s.hashPools.map (fun e => (e.1, viewPool e.2)),
    vp := s.validatedPools, events := s.pendingEvents.map viewEv }

end Lumina.Model.Pools

/-
  Model of `celestia_types::nmt::Namespace` (types/src/nmt.rs).
  One Lean function per Rust function; a namespace value is its 29 raw bytes.
  Sizes come from the generated constants (`Lumina.Gen.C14`), re-read from /repo on every run.
-/
import Lumina.Gen.C14
import Lumina.Model.Util

namespace Lumina.Model.Namespace
open Lumina.Util Lumina.Gen.C14

inductive Err where
  | invalidSize
  | invalidV0
  | invalidV255
  | unsupportedVersion (v : Nat)
  deriving DecidableEq, Repr

def Err.kind : Err → String
  | .invalidSize => "InvalidNamespaceSize"
  | .invalidV0 => "InvalidNamespaceV0"
  | .invalidV255 => "InvalidNamespaceV255"
  | .unsupportedVersion v => s!"UnsupportedNamespaceVersion({v})"

/-- a namespace is represented by its raw bytes (`Namespace(NamespaceId([u8; NS_SIZE]))`) -/
abbrev Ns := Bytes

/-- `Namespace::new_v0` -/
def newV0 (id : Bytes) : Except Err Ns :=
  if id.length = NS_ID_SIZE then
    let pre := id.take (NS_ID_SIZE - NS_ID_V0_SIZE)
    let suf := id.drop (NS_ID_SIZE - NS_ID_V0_SIZE)
    if pre.any (fun x => x != 0) then .error .invalidV0
    else .ok (List.replicate (NS_SIZE - suf.length) 0 ++ suf)
  else if id.length ≤ NS_ID_V0_SIZE then
    .ok (List.replicate (NS_SIZE - id.length) 0 ++ id)
  else .error .invalidSize

/-- `Namespace::const_v255`: `[255; NS_SIZE]` with `bytes[NS_ID_SIZE] = id` -/
def constV255 (id : UInt8) : Ns :=
  (List.replicate NS_SIZE (255 : UInt8)).set NS_ID_SIZE id

/-- `Namespace::new_v255` -/
def newV255 (id : Bytes) : Except Err Ns :=
  if id.length ≠ NS_ID_SIZE then .error .invalidSize
  else
    match id.getLast? with
    | none => .error .invalidSize          -- unreachable after the length check (`split_last().unwrap()`)
    | some last =>
      if id.dropLast.all (fun x => x == 255) then .ok (constV255 last)
      else .error .invalidV255

/-- `Namespace::new` -/
def new (version : UInt8) (id : Bytes) : Except Err Ns :=
  if version = 0 then newV0 id
  else if version = 255 then newV255 id
  else .error (.unsupportedVersion version.toNat)

/-- `Namespace::from_raw` -/
def fromRaw (bytes : Bytes) : Except Err Ns :=
  if bytes.length ≠ NS_SIZE then .error .invalidSize
  else
    match bytes with
    | [] => .error .invalidSize
    | v :: id => new v id

/-- `Namespace::as_bytes` -/
def asBytes (ns : Ns) : Bytes := ns

/-- `Namespace::version` -/
def version (ns : Ns) : UInt8 := ns.headD 0

/-- `Namespace::id` -/
def idBytes (ns : Ns) : Bytes := ns.drop 1

/-- `Namespace::id_v0` -/
def idV0 (ns : Ns) : Option Bytes :=
  if version ns = 0 then some (ns.drop (NS_SIZE - NS_ID_V0_SIZE)) else none

/-- derived `Ord` on `NamespaceId([u8; NS_SIZE])`: array comparison, first differing byte decides -/
def cmp : Bytes → Bytes → Ordering
  | [], [] => .eq
  | [], _ :: _ => .lt
  | _ :: _, [] => .gt
  | a :: as, b :: bs =>
    if a < b then .lt else if b < a then .gt else cmp as bs

def le (a b : Ns) : Bool := cmp a b != .gt
def ge (a b : Ns) : Bool := cmp a b != .lt

/-- `Namespace::const_v0` -/
def constV0 (id : Bytes) : Ns := List.replicate (NS_SIZE - NS_ID_V0_SIZE) 0 ++ id

def MAX_PRIMARY_RESERVED : Ns := constV0 (MAX_PRIMARY_RESERVED_ID.map UInt8.ofNat)
def MIN_SECONDARY_RESERVED : Ns := constV255 (UInt8.ofNat MIN_SECONDARY_RESERVED_ID)

/-- `Namespace::is_reserved` -/
def isReserved (ns : Ns) : Bool :=
  le ns MAX_PRIMARY_RESERVED || ge ns MIN_SECONDARY_RESERVED

/-! ### serde form: standard base64 (RFC 4648, with padding, canonical) of the raw bytes -/

def b64Char (n : Nat) : Char :=
  if n < 26 then Char.ofNat (65 + n)
  else if n < 52 then Char.ofNat (97 + (n - 26))
  else if n < 62 then Char.ofNat (48 + (n - 52))
  else if n = 62 then '+' else '/'

def b64Val (c : Char) : Option Nat :=
  if 'A' ≤ c ∧ c ≤ 'Z' then some (c.toNat - 65)
  else if 'a' ≤ c ∧ c ≤ 'z' then some (c.toNat - 97 + 26)
  else if '0' ≤ c ∧ c ≤ '9' then some (c.toNat - 48 + 52)
  else if c = '+' then some 62
  else if c = '/' then some 63
  else none

/-- `BASE64_STANDARD.encode` -/
def b64Encode : Bytes → List Char
  | [] => []
  | [a] =>
    let n := a.toNat
    [b64Char (n / 4), b64Char (n % 4 * 16), '=', '=']
  | [a, b] =>
    let n := a.toNat * 256 + b.toNat
    [b64Char (n / 1024), b64Char (n / 16 % 64), b64Char (n % 16 * 4), '=']
  | a :: b :: c :: rest =>
    let n := a.toNat * 65536 + b.toNat * 256 + c.toNat
    b64Char (n / 262144) :: b64Char (n / 4096 % 64) :: b64Char (n / 64 % 64) :: b64Char (n % 64)
      :: b64Encode rest

/-- `BASE64_STANDARD.decode`: canonical padding required (only in the last quantum), trailing
    bits must be zero, input length a multiple of four -/
def b64Decode : List Char → Option Bytes
  | [] => some []
  | c0 :: c1 :: c2 :: c3 :: rest =>
    if rest = [] ∧ c3 = '=' then
      if c2 = '=' then
        match b64Val c0, b64Val c1 with
        | some v0, some v1 =>
          if v1 % 16 = 0 then some [UInt8.ofNat (v0 * 4 + v1 / 16)] else none
        | _, _ => none
      else
        match b64Val c0, b64Val c1, b64Val c2 with
        | some v0, some v1, some v2 =>
          if v2 % 4 = 0 then
            some [UInt8.ofNat (v0 * 4 + v1 / 16), UInt8.ofNat (v1 % 16 * 16 + v2 / 4)]
          else none
        | _, _, _ => none
    else
      match b64Val c0, b64Val c1, b64Val c2, b64Val c3, b64Decode rest with
      | some v0, some v1, some v2, some v3, some r =>
        some (UInt8.ofNat (v0 * 4 + v1 / 16) :: UInt8.ofNat (v1 % 16 * 16 + v2 / 4)
                :: UInt8.ofNat (v2 % 4 * 64 + v3) :: r)
      | _, _, _, _, _ => none
  | _ => none

/-- `Serialize for Namespace` -/
def serialize (ns : Ns) : List Char := b64Encode ns

/-- `Deserialize for Namespace`: base64-decode into a `2 * NS_SIZE` buffer, then `from_raw`.
    `none` = a serde error (base64 error, output too large, or invalid namespace). -/
def deserialize (s : List Char) : Option Ns :=
  match b64Decode s with
  | none => none
  | some bs =>
    if bs.length > 2 * NS_SIZE then none
    else match fromRaw bs with
      | .ok ns => some ns
      | .error _ => none

end Lumina.Model.Namespace

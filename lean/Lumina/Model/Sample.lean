/-
  Model of `celestia_types::sample::Sample` (types/src/sample.rs): `new`, `verify`, `from_raw`,
  `From<Sample> for RawSample`, and of `Share::from_raw` / `Share::parity` (types/src/share.rs).

  `verifyUnfixed` is the code as it was before the `fix:` commit (no binding of the proof's position to
  the requested coordinate); `verify` is the code as it is now.
-/
import Lumina.Model.Eds
import Lumina.Model.Namespace

namespace Lumina.Model.Sample
open Lumina.Util Lumina.Model.Nmt Lumina.Model.Eds

/-- error kinds of `celestia_types::Error` that the sample code can return -/
inductive SErr where
  | edsIndexOutOfRange
  | rangeProof (e : Nmt.Err)
  | nmtUnordered
  | missingProof
  | invalidNamespacedHash
  | invalidAxis
  | wrongProofType
  | validation
  | verification
  | invalidShareSize
  | namespace (e : Namespace.Err)
  | panic
  deriving DecidableEq, Repr, Inhabited

def SErr.kind : SErr → String
  | .edsIndexOutOfRange => "EdsIndexOutOfRange"
  | .rangeProof .panic => "panic"
  | .rangeProof e => "RangeProofError:" ++ e.kind
  | .nmtUnordered => "Nmt"
  | .missingProof => "MissingProof"
  | .invalidNamespacedHash => "InvalidNamespacedHash"
  | .invalidAxis => "InvalidAxis"
  | .wrongProofType => "WrongProofType"
  | .validation => "Validation"
  | .verification => "Verification"
  | .invalidShareSize => "InvalidShareSize"
  | .namespace e => e.kind
  | .panic => "panic"

/-- does the outcome stand for a Rust panic? -/
def SErr.isPanic : SErr → Bool
  | .rangeProof .panic => true
  | .panic => true
  | _ => false

/-- `Share::from_raw`: 512 bytes, valid namespace; the info byte check `byte >> 1 > 127` can never fail -/
def shareFromRaw (data : Bytes) : Except SErr Share :=
  if data.length ≠ SHARE_SIZE then .error .invalidShareSize
  else
    match Namespace.fromRaw (data.take NS_SIZE) with
    | .error e => .error (.namespace e)
    | .ok _ => .ok ⟨data, false⟩

/-- `Share::parity` -/
def shareParity (data : Bytes) : Except SErr Share :=
  if data.length ≠ SHARE_SIZE then .error .invalidShareSize else .ok ⟨data, true⟩

/-- `Sample { proof_type, share, proof }` -/
structure Sample where
  proofType : Axis
  share : Share
  proof : NsProof
  deriving DecidableEq, Repr, Inhabited

def axisErr : AxisErr → SErr
  | .indexOutOfRange => .edsIndexOutOfRange
  | .unordered => .nmtUnordered
  | .panic => .panic

/-- `Sample::new(row_index, column_index, proof_type, eds)` -/
def new (H : HashFn) (e : Eds) (row col : Nat) (ax : Axis) : Except SErr Sample :=
  match e.share? row col with
  | none => .error .edsIndexOutOfRange
  | some share =>
    let (treeIdx, leafIdx) := match ax with
      | .row => (row, col)
      | .col => (col, row)
    match e.axisLeafHashes H ax treeIdx with
    | .error er => .error (axisErr er)
    | .ok hs =>
      match buildRangeProof H true hs leafIdx (leafIdx + 1) with
      | .error _ => .error .panic
      | .ok sibs => .ok ⟨ax, share, ⟨leafIdx, leafIdx + 1, sibs, true, false, none⟩⟩

/-- `Sample::verify(id, dah)` BEFORE the fix: the root is chosen from the id, the proof's own position is
    never compared with the requested coordinate -/
def verifyUnfixed (H : HashFn) (s : Sample) (row col : Nat) (dah : Dah) : Except SErr Unit :=
  let root? := match s.proofType with
    | .row => dah.rowRoot? row
    | .col => dah.colRoot? col
  match root? with
  | none => .error .edsIndexOutOfRange
  | some root =>
    match verifyRange H s.proof root [s.share.data] s.share.ns with
    | .ok () => .ok ()
    | .error e => .error (.rangeProof e)

/-- `Sample::verify(id, dah)` as it is now (after the `fix:` commit): both coordinates must lie inside the
    square committed by the DAH, and the proof must be a proof for exactly the requested position on the axis
    it was built for -/
def verify (H : HashFn) (s : Sample) (row col : Nat) (dah : Dah) : Except SErr Unit :=
  match dah.rowRoot? row, dah.colRoot? col with
  | some rowRoot, some colRoot =>
    let sel : NsHash × Nat := match s.proofType with
      | .row => (rowRoot, col)
      | .col => (colRoot, row)
    if s.proof.start ≠ sel.2 then .error .verification
    else
      match luminaVerifyRange H s.proof sel.1 [s.share.data] s.share.ns with
      | .ok () => .ok ()
      | .error e => .error (.rangeProof e)
  | _, _ => .error .edsIndexOutOfRange

/-- `shwap.Sample` on the wire (`RawSample`): optional share bytes, optional proof
    (`start`, `end` already reduced mod 2^32, `nodes`, `leaf_hash`, `is_max_namespace_ignored`), `proof_type` -/
structure RawSample where
  share : Option Bytes
  proof : Option (Nat × Nat × List Bytes × Bytes × Bool)
  proofType : Int
  deriving Repr, Inhabited

/-- `Sample::from_raw(id, raw)` -/
def fromRaw (row col : Nat) (raw : RawSample) : Except SErr Sample :=
  match raw.proof with
  | none => .error .missingProof
  | some (st, en, nodes, leafHash, ign) =>
    match NsProof.ofRaw st en nodes leafHash ign with
    | none => .error .invalidNamespacedHash
    | some proof =>
      let ax? : Option Axis := if raw.proofType = 0 then some .row else if raw.proofType = 1 then some .col else none
      match ax? with
      | none => .error .invalidAxis
      | some ax =>
        if proof.isAbsence then .error .wrongProofType
        else
          match raw.share with
          | none => .error .validation
          | some data =>
            match proof.totalLeaves with
            | .error _ => .error .panic
            | .ok none => .error .validation
            | .ok (some squareSize) =>
              let shr := if row < squareSize / 2 ∧ col < squareSize / 2 then shareFromRaw data else shareParity data
              match shr with
              | .error e => .error e
              | .ok share => .ok ⟨ax, share, proof⟩

/-- `From<Sample> for RawSample` -/
def toRaw (s : Sample) : RawSample :=
  { share := some s.share.data
    proof := some (s.proof.start, s.proof.end_, s.proof.siblings.map NsHash.toBytes,
                   (if s.proof.isAbsence then (s.proof.leaf.map NsHash.toBytes).getD [] else []), s.proof.ignoreMaxNs)
    proofType := match s.proofType with | .row => 0 | .col => 1 }

end Lumina.Model.Sample

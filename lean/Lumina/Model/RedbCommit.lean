/-
  C22 (strengthening S5) — a model of redb 2.6.3's COMMIT PROTOCOL and of its recovery on open.

  `Model/Crash.lean` assumes `AtomicDurableCommit` about "redb + the file system".  This file
  models the part of redb that is responsible for it, so that the assumption becomes a theorem
  (`Proofs/RedbCommit.lean`, `Props/C22.lean` section S5) about THIS model under a storage /
  crash model that is the one of the fault-injecting harness (`harness/src/bin/c22.rs`).

  Transcribed from ~/.cargo/registry/src/*/redb-2.6.3/src (line numbers of that release):

    tree_store/page_store/header.rs
      l.12-41   file layout: one 320-byte header at offset 0 = 64 bytes (magic, GOD BYTE, page
                size, region layout) + commit slot 0 (128 bytes) + commit slot 1 (128 bytes);
                a slot = version, the three tree roots (user / system / freed: page number +
                16-byte checksum + length), transaction id, 16-byte slot checksum.
      l.58-61   god byte: PRIMARY_BIT (which slot is the primary), RECOVERY_REQUIRED,
                TWO_PHASE_COMMIT.                                         `Disk.primary/.twoPhase`
      l.196-236 `pick_primary_for_repair`                                  `pickPrimary`
      l.239-289 `DatabaseHeader::from_bytes` (primary bit, flags, `primary_corrupted` /
                `secondary_corrupted` = slot checksum mismatch, l.362)    `Slot.corrupted`
    tree_store/page_store/page_manager.rs
      l.415-422 `write_header`: ONE `storage.write(0, DB_HEADER_SIZE, true)` of `to_bytes`  `headerWrites`
      l.731-801 `commit_inner`: fill the SECONDARY slot (txid, roots) / `write_header` /
                `flush` iff two_phase / `swap_primary_slot`, `two_phase_commit := two_phase` /
                `write_header` / `flush`                                   `stage1`, `stage2`, `commitEpochs`
      l.834-876 `rollback_uncommitted_writes`: no file write at all (pending writes cancelled) `abort = id`
      l.244-264 `TransactionalMemory::new`, `needs_recovery` branch: `pick_primary_for_repair`
    tree_store/page_store/cached_file.rs
      l.254-285, 293-297 `flush` = write every buffered page (`file.write`), then ONE
                `file.sync_data`; l.428-452 a full write buffer evicts dirty pages to the file
                EARLY (during the transaction closure, without a sync).
    transactions.rs
      l.1754-1779 `WriteTransaction::commit_inner` -> l.1931-2028 `durable_commit(user_root, eventual=false)`
                -> `mem.commit(user_root, system_root, freed_root, transaction_id, false, self.two_phase_commit)`;
                lumina never calls `set_two_phase_commit`/`set_quick_repair`/`set_durability`, so
                `two_phase = false` (the "1-phase + checksum" commit); l.1898-1929 `abort`.
    db.rs
      l.361-400 `verify_primary_checksums` (walk the user, system and freed trees from the
                roots of the primary slot, comparing every page's checksum with the one stored
                in its parent / in the slot)                               `verify`
      l.783-812 `do_repair`: verify; on failure `Corrupted` if the header says 2-phase, else
                `repair_primary_corrupted` (swap) and verify again        `recoverSlot`
      l.897-923 `Database::new`: `needs_repair` (RECOVERY_REQUIRED is set by `begin_writable`,
                l.371-377 + l.926, for the whole time the database is open, so every crash takes
                this path) -> `do_repair` -> `mem.commit(roots, next_transaction_id, false,
                two_phase = true)`                                         `repair`

  THE STORAGE MODEL.  The file is a set of REGIONS, each holding a value:
      the god byte (primary bit + two-phase flag)        1 byte
      commit slot 0, commit slot 1                       128 bytes each, inside the first page
      every data page                                    one redb page (B-tree node)
  A backend `write` replaces whole regions; redb's header write (one 320-byte `write`) is
  modelled as THREE region writes (slot 0, slot 1, god byte), i.e. the model lets a header write
  TEAR between the god byte and the slots — finer than the harness, whose fault model keeps or
  drops the 320-byte write as a whole.  GRANULARITY ASSUMPTION (explicit): a write of the god
  byte, of one 128-byte slot, or of one page is atomic (all or nothing).  No bit rot: a region
  only changes by a write.

  THE CRASH MODEL (identical to `harness/src/bin/c22.rs`): the writes issued before the last
  completed `sync_data` are all on the medium; of the writes issued after it, ANY SUBSET is
  (`CrashImg`).  Because any subset may survive, the order in which one flush issues writes to
  DIFFERENT regions is immaterial (redb flushes in hash-map order).

  CHECKSUMS are abstract functions (`Sums`): `page` (xxh3 of a B-tree node, which for a branch
  covers the child page numbers AND child checksums, for a master-table leaf the table roots —
  a Merkle tree) and `slot`.  The theorems assume `Function.Injective H.page` (collision
  freeness) explicitly.

  NOT modelled (named in `design_notes/C22.md`): the B-tree code and the page allocator (a
  transaction is a `Plan` = the page writes it performs + its new roots; that the plan writes
  only pages not reachable from the committed roots and really stores the new state is the
  hypothesis `PlanOK`), region layout / file growth and shrinking (`set_len`), the allocator
  state (region tracker) and the RECOVERY_REQUIRED windows of a clean shutdown, crashes during
  redb's own repair-on-open (its effect is the pure function `repair`), torn writes inside a
  region, savepoints, non-durable commits.

  Import-free apart from `Model/Crash.lean`.
-/
import Lumina.Model.Crash

namespace Lumina.Model.RedbCommit

/-! ### storage -/

/-- a checksummed page reference (`BtreeHeader` in a slot, a child entry in a branch page, a
    table root in a master-table leaf): page number + expected checksum -/
structure Ptr (C : Type) where
  page : Nat
  sum : C

/-- one B-tree page: its own data (`payload`: keys/values) and the checksummed references to
    the pages below it -/
structure Page (α C : Type) where
  payload : α
  kids : List (Ptr C)

/-- one commit slot (`TransactionHeader` + slot checksum): transaction id, the non-null
    roots (user, system, freed — in this order), checksum of the slot -/
structure Slot (C : Type) where
  txid : Nat
  roots : List (Ptr C)
  sum : C

/-- the abstract checksum functions (xxh3-128 in redb) -/
structure Sums (α C : Type) where
  page : Page α C → C
  slot : Nat → List (Ptr C) → C

/-- the medium: god byte (`primary` = PRIMARY_BIT, `twoPhase` = TWO_PHASE_COMMIT), the two
    commit slots, the pages.  (RECOVERY_REQUIRED is constantly set while the database is open.) -/
structure Disk (α C : Type) where
  primary : Bool
  twoPhase : Bool
  slots : Bool → Slot C
  pages : Nat → Page α C

variable {α C : Type}

/-- a backend write of one region (`StorageBackend::write`) -/
inductive Write (α C : Type) where
  | god (primary twoPhase : Bool)
  | slot (i : Bool) (s : Slot C)
  | page (n : Nat) (pg : Page α C)

def Write.apply (d : Disk α C) : Write α C → Disk α C
  | .god p t => { d with primary := p, twoPhase := t }
  | .slot i s => { d with slots := fun j => if j = i then s else d.slots j }
  | .page n pg => { d with pages := fun m => if m = n then pg else d.pages m }

def applyAll (d : Disk α C) (ws : List (Write α C)) : Disk α C := ws.foldl Write.apply d

/-- a write is a header write (offset 0) or a data-page write: what the harness can see -/
inductive Kind where
  | header
  | page
  deriving DecidableEq, Repr

def Write.kind : Write α C → Kind
  | .god _ _ => .header
  | .slot _ _ => .header
  | .page _ _ => .page

/-! ### reading a tree with checksum verification -/

/-- read the trees below a list of references with the reader `rt`; fails if one fails -/
def readKids {β : Type} (rt : Ptr C → Option (List β)) : List (Ptr C) → Option (List β)
  | [] => some []
  | k :: ks =>
    match rt k, readKids rt ks with
    | some a, some b => some (a ++ b)
    | _, _ => none

/-- read the tree below `p`, verifying every page against the checksum stored in the
    reference to it (`verify_checksums`); the result is the content of the tree (payloads in
    depth-first order).  `fuel` bounds the depth (a model artefact: redb recurses on the page
    structure; every theorem holds for every `fuel`). -/
def readTree [DecidableEq C] (H : Sums α C) (pages : Nat → Page α C) : Nat → Ptr C → Option (List α)
  | 0, _ => none
  | f + 1, p =>
    if H.page (pages p.page) = p.sum then
      match readKids (readTree H pages f) (pages p.page).kids with
      | some l => some ((pages p.page).payload :: l)
      | none => none
    else none

def readRoots [DecidableEq C] (H : Sums α C) (pages : Nat → Page α C) (fuel : Nat)
    (roots : List (Ptr C)) : Option (List α) :=
  readKids (readTree H pages fuel) roots

/-- page numbers reachable from a list of references through `lt` -/
def liveKids (lt : Ptr C → List Nat) : List (Ptr C) → List Nat
  | [] => []
  | k :: ks => lt k ++ liveKids lt ks

/-- page numbers reachable from `p` (followed regardless of checksums: an over-approximation
    of the pages the verified read visits) -/
def liveTree (pages : Nat → Page α C) : Nat → Ptr C → List Nat
  | 0, _ => []
  | f + 1, p => p.page :: liveKids (liveTree pages f) (pages p.page).kids

def liveRoots (pages : Nat → Page α C) (fuel : Nat) (roots : List (Ptr C)) : List Nat :=
  liveKids (liveTree pages fuel) roots

/-! ### the commit protocol -/

/-- what the B-tree layer hands to `TransactionalMemory::commit`: the pages the transaction
    wrote (dirty pages, in any order; some may reach the file early by write-buffer eviction),
    its new roots and its transaction id -/
structure Plan (α C : Type) where
  pages : List (Nat × Page α C)
  roots : List (Ptr C)
  txid : Nat

def Plan.pageWrites (pl : Plan α C) : List (Write α C) := pl.pages.map fun w => .page w.1 w.2

/-- a slot with a correct checksum (`TransactionHeader::to_bytes`) -/
def mkSlot (H : Sums α C) (txid : Nat) (roots : List (Ptr C)) : Slot C :=
  { txid := txid, roots := roots, sum := H.slot txid roots }

/-- `write_header`: ONE 320-byte backend write = the three header regions -/
def headerWrites (h : Disk α C) : List (Write α C) :=
  [.slot false (h.slots false), .slot true (h.slots true), .god h.primary h.twoPhase]

/-- `commit_inner` l.755-760: the in-memory header with the SECONDARY slot filled -/
def stage1 (H : Sums α C) (d : Disk α C) (pl : Plan α C) : Disk α C :=
  { d with slots := fun j => if j = !d.primary then mkSlot H pl.txid pl.roots else d.slots j }

/-- `commit_inner` l.771-772: swap the primary, record the commit kind -/
def stage2 (tp : Bool) (h1 : Disk α C) : Disk α C :=
  { h1 with primary := !h1.primary, twoPhase := tp }

/-- the backend writes of one durable commit, grouped into SYNC EPOCHS (every epoch is
    followed by one `sync_data`); `tp` = two-phase.
      1-phase: pages, header(h1), header(h2), sync        (the write buffer coalesces h1 into
                                                           h2; the model keeps both — a superset)
      2-phase: pages, header(h1), sync, header(h2), sync -/
def commitEpochs (H : Sums α C) (d : Disk α C) (pl : Plan α C) (tp : Bool) : List (List (Write α C)) :=
  let h1 := stage1 H d pl
  let h2 := stage2 tp h1
  if tp then [pl.pageWrites ++ headerWrites h1, headerWrites h2]
  else [pl.pageWrites ++ headerWrites h1 ++ headerWrites h2]

def applyEpochs (d : Disk α C) (eps : List (List (Write α C))) : Disk α C := eps.foldl applyAll d

/-- the medium after `commit()` has returned -/
def commitDisk (H : Sums α C) (d : Disk α C) (pl : Plan α C) (tp : Bool) : Disk α C :=
  applyEpochs d (commitEpochs H d pl tp)

/-! ### crashes -/

/-- `CrashImg d eps d'`: while the epochs `eps` (each = writes then a `sync_data`) are being
    issued starting from medium `d`, a crash can leave medium `d'`.  The crash hits inside an
    epoch after `k` of its writes were issued: all earlier epochs are durable, and ANY SUBSET
    `sub` of those `k` unsynced writes survives; or it hits after the last sync. -/
def CrashImg (d : Disk α C) : List (List (Write α C)) → Disk α C → Prop
  | [], d' => d' = d
  | ep :: rest, d' =>
    (∃ (k : Nat) (sub : List (Write α C)), sub.Sublist (ep.take k) ∧ d' = applyAll d sub) ∨
    CrashImg (applyAll d ep) rest d'

/-! ### recovery on open -/

/-- `from_bytes`: stored slot checksum ≠ computed one -/
def Slot.corrupted [DecidableEq C] (H : Sums α C) (s : Slot C) : Bool :=
  decide (H.slot s.txid s.roots ≠ s.sum)

/-- `pick_primary_for_repair`: index of the slot to start from; `none` = `Err(Corrupted)` -/
def pickPrimary [DecidableEq C] (H : Sums α C) (d : Disk α C) : Option Bool :=
  let p := d.primary
  let pc := (d.slots p).corrupted H
  let sc := (d.slots (!p)).corrupted H
  if d.twoPhase then
    if pc then none else some p
  else if pc then
    if sc then none else some (!p)
  else if decide ((d.slots p).txid < (d.slots (!p)).txid) && !sc then some (!p)
  else some p

/-- `verify_primary_checksums` with slot `q` as the primary: the verified content, if any -/
def verify [DecidableEq C] (H : Sums α C) (fuel : Nat) (d : Disk α C) (q : Bool) : Option (List α) :=
  readRoots H d.pages fuel (d.slots q).roots

/-- `do_repair` l.787-812: the slot the reopened database finally uses; `none` = open fails -/
def recoverSlot [DecidableEq C] (H : Sums α C) (fuel : Nat) (d : Disk α C) : Option Bool :=
  match pickPrimary H d with
  | none => none
  | some q =>
    if (verify H fuel d q).isSome then some q
    else if d.twoPhase then none
    else if (verify H fuel d (!q)).isSome then some (!q)
    else none

/-- the content a database reopened on `d` shows; `none` = `Database::create/open` fails -/
def recover [DecidableEq C] (H : Sums α C) (fuel : Nat) (d : Disk α C) : Option (List α) :=
  match recoverSlot H fuel d with
  | none => none
  | some q => verify H fuel d q

/-- the medium after a successful repair-on-open: `Database::new` commits the roots it
    recovered again, two-phase, with the next transaction id (into the other slot, then swaps) -/
def repair [DecidableEq C] (H : Sums α C) (fuel : Nat) (d : Disk α C) : Disk α C :=
  match recoverSlot H fuel d with
  | none => d
  | some q =>
    commitDisk H { d with primary := q }
      { pages := [], roots := (d.slots q).roots, txid := (d.slots q).txid + 1 } true

/-! ### what is assumed of the B-tree / allocator layer -/

/-- the state of an open database between two write transactions -/
structure Clean [DecidableEq C] (H : Sums α C) (fuel : Nat) (d : Disk α C) : Prop where
  /-- the primary slot has a correct slot checksum … -/
  pvalid : (d.slots d.primary).corrupted H = false
  /-- … and its trees verify (they are what the open database shows) -/
  verified : ∃ c, verify H fuel d d.primary = some c
  /-- the secondary slot, unless its checksum is wrong, is older (transaction ids grow with
      every commit) or has the same roots (a freshly created file has two equal slots) -/
  order : (d.slots (!d.primary)).corrupted H = true ∨
          (d.slots (!d.primary)).txid < (d.slots d.primary).txid ∨
          (d.slots (!d.primary)).roots = (d.slots d.primary).roots

/-- **Hypothesis on the page allocation** of a transaction turning the committed content into
    `w` (`dec` maps tree content to the logical state): (1) its transaction id is newer,
    (2) every page it writes is FREE — not reachable from the committed (primary) roots, so no
    committed page is ever overwritten, (3) once all its pages are written, its new roots
    verify and hold `w`. -/
structure PlanOK [DecidableEq C] {σ : Type} (H : Sums α C) (fuel : Nat) (dec : List α → σ)
    (d : Disk α C) (w : σ) (pl : Plan α C) : Prop where
  txid_gt : (d.slots d.primary).txid < pl.txid
  free : ∀ wr ∈ pl.pages, wr.1 ∉ liveRoots d.pages fuel (d.slots d.primary).roots
  stored : ∃ c, readRoots H (applyAll d pl.pageWrites).pages fuel pl.roots = some c ∧ dec c = w

/-- a write of a dirty page of a running transaction (early eviction): to a free page -/
def FreePageWrite (fuel : Nat) (d : Disk α C) (w : Write α C) : Prop :=
  ∃ n pg, w = .page n pg ∧ n ∉ liveRoots d.pages fuel (d.slots d.primary).roots

end Lumina.Model.RedbCommit

/-
  What the C33 / C34 monitors see of a model state (`Lumina.Model.Daser.State`): the
  abstraction functions used by the drivers (`spec` mode) and by the theorems.
  Import-free (core + model + spec vocabulary).
-/
import Lumina.Model.Daser
import Lumina.Spec.C33
import Lumina.Spec.C34

namespace Lumina.Model.Daser
open Lumina.Model.Ranges

def view34 (s : State) : Lumina.Spec.C34.View :=
  { limit := s.cfg.limit
    extra := s.cfg.extra
    stored := fun x => contains s.store.stored x
    storeSampled := fun x => contains s.store.sampled x
    storeHead := head s.store.stored
    fresh := fun x => (s.hdr x).fresh
    connected := s.w.connected
    alive := !s.w.dead
    known := fun x => contains s.w.cand x
    newest := s.w.headHeight
    inProgress := fun x => contains s.w.ongoing x
    nInProgress := s.w.futs.length
    promised := fun x => contains s.w.willBePruned x
    timedOut := fun x => contains s.w.timedOut x
    highestPrunable := s.w.highestPrunable
    numPrunable := s.w.numPrunable }

def blkOf (f : Fut) : Lumina.Spec.C33.Blk :=
  { height := f.height, chosen := f.shares, pending := f.pending, anyTimeout := f.timedOut }

def view33 (s : State) : Lumina.Spec.C33.View :=
  { width := fun x => (s.hdr x).width
    recorded := fun x => metaGet s.store.smeta x
    blocks := s.w.futs.map blkOf
    justOk := none
    connected := s.w.connected }

end Lumina.Model.Daser

/-
  Model of `celestia_types::row::Row` (types/src/row.rs): `new`, `verify`, `from_raw`, `From<Row> for RawRow`.

  The Reed–Solomon codec (`leopard_codec::encode` / `reconstruct`) is NOT modelled: `fromRaw` takes the codec's
  outcome on the shard vector it would be called with as a parameter (`codec`); the driver passes the real
  codec's output (an oracle field of the op line), theorems state the needed codec property as a hypothesis.
-/
import Lumina.Model.Sample

namespace Lumina.Model.Row
open Lumina.Util Lumina.Model.Nmt Lumina.Model.Eds
open Lumina.Model.Sample (SErr shareFromRaw shareParity)

/-- `Row { shares }` -/
structure Row where
  shares : List Share
  deriving DecidableEq, Repr, Inhabited

inductive RErr where
  /-- `Error::Nmt("Leaves' namespaces should be inserted in ascending order")` -/
  | nmt
  | edsIndexOutOfRange
  | rootMismatch
  /-- `Error::LeopardCodec(_)` -/
  | leopard
  /-- `Error::Validation` (row without shares) -/
  | validation
  /-- error of `Share::from_raw` / `Share::parity` -/
  | share (e : SErr)
  | panic
  deriving DecidableEq, Repr, Inhabited

def RErr.kind : RErr → String
  | .nmt => "Nmt"
  | .edsIndexOutOfRange => "EdsIndexOutOfRange"
  | .rootMismatch => "RootMismatch"
  | .leopard => "LeopardCodec"
  | .validation => "Validation"
  | .share e => e.kind
  | .panic => "panic"

/-- `Row::new(index, eds)` -/
def new (e : Eds) (index : Nat) : Option Row := (e.row? index).map Row.mk

/-- `Row::verify(id, dah)`: rebuild the row tree with `push_leaf` (order check), look up the row root, compare
    the HASH parts of the two roots -/
def verify (H : HashFn) (r : Row) (index : Nat) (dah : Dah) : Except RErr Unit :=
  match pushLeaves H (r.shares.map Share.leaf) with
  | none => .error .nmt
  | some hs =>
    match dah.rowRoot? index with
    | none => .error .edsIndexOutOfRange
    | some root =>
      match computeRoot H true hs with
      | .error _ => .error .panic
      | .ok t => if t.hash ≠ root.hash then .error .rootMismatch else .ok ()

/-- `shwap.Row` on the wire: the half of the shares and the side (`half_side()` maps unknown values to `Left`) -/
structure RawRow where
  sharesHalf : List Bytes
  halfSide : Int
  deriving Repr, Inhabited

/-- outcome of the codec call -/
inductive CodecRes where
  | ok (shards : List Bytes)
  | err
  | panic
  deriving Repr, Inhabited

/-- the shard vector `Row::from_raw` hands to the codec: `Left`: the half followed by as many zeroed
    512-byte shards (`leopard_codec::encode`); `Right`: as many EMPTY shards followed by the half
    (`leopard_codec::reconstruct`) -/
def codecInput (raw : RawRow) : List Bytes :=
  let n := raw.sharesHalf.length
  if raw.halfSide = 1 then List.replicate n [] ++ raw.sharesHalf
  else raw.sharesHalf ++ List.replicate n (List.replicate SHARE_SIZE 0)

/-- `iter().enumerate().map(..).collect::<Result<_>>()`: first error wins -/
def buildShares (rowIndex dataShares : Nat) : Nat → List Bytes → Except SErr (List Share)
  | _, [] => .ok []
  | col, d :: rest =>
    match (if rowIndex < dataShares ∧ col < dataShares then shareFromRaw d else shareParity d) with
    | .error e => .error e
    | .ok s =>
      match buildShares rowIndex dataShares (col + 1) rest with
      | .error e => .error e
      | .ok ss => .ok (s :: ss)

/-- `Row::from_raw(id, raw)` with the codec's outcome on `codecInput raw` as a parameter -/
def fromRaw (codec : List Bytes → CodecRes) (index : Nat) (raw : RawRow) : Except RErr Row :=
  let dataShares := raw.sharesHalf.length
  if dataShares = 0 then .error .validation   -- since /repo commit 0e879ca (before: leopard_codec panicked)
  else
  match codec (codecInput raw) with
  | .err => .error .leopard
  | .panic => .error .panic
  | .ok shards =>
    match buildShares index dataShares 0 shards with
    | .error e => .error (.share e)
    | .ok shares => .ok ⟨shares⟩

/-- `From<Row> for RawRow`: the first `len / 2` shares, `HalfSide::Left` -/
def toRaw (r : Row) : RawRow :=
  { sharesHalf := (r.shares.map Share.data).take (r.shares.length / 2), halfSide := 0 }

/-- the right half on the wire (what a peer that only has parity data sends) -/
def toRawRight (r : Row) : RawRow :=
  { sharesHalf := (r.shares.map Share.data).drop (r.shares.length / 2), halfSide := 1 }

end Lumina.Model.Row

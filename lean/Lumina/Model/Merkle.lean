/-
  Simple (RFC-6962 / tendermint style) merkle tree as used by celestia-types.

  Transcribes
    * `tendermint::merkle::MerkleHash::{empty_hash, leaf_hash, inner_hash, hash_byte_vectors}`
      (tendermint-0.40.4/src/merkle.rs) and `simple_hash_from_byte_vectors`,
    * `celestia_types::MerkleProof::{new, verify}`, `hash_leaves_collecting_aunts`,
      `subtree_root_from_aunts` (/repo/types/src/merkle_proof.rs).

  Parametric in the hash: `HashFns D` bundles `empty`, `leaf`, `inner` over a digest type `D`.
  Theorems assume collision-freeness hypotheses about an arbitrary `HashFns`; drivers instantiate
  it with `sha256Fns` (the concrete SHA-256 of `Lumina.Model.Sha256`).

  Import-free apart from `Lumina.Model.*` (links into `lean_exe` drivers).
-/
import Lumina.Model.Util
import Lumina.Model.Sha256

namespace Lumina.Model.Merkle
open Lumina.Util

/-- the three hash operations of `tendermint::merkle::MerkleHash` -/
structure HashFns (D : Type) where
  /-- `empty_hash()` = H("") -/
  empty : D
  /-- `leaf_hash(bytes)` = H(0x00 ‖ bytes) -/
  leaf : Bytes → D
  /-- `inner_hash(l, r)` = H(0x01 ‖ l ‖ r) -/
  inner : D → D → D

/-- concrete instance: SHA-256 with the RFC-6962 domain-separation prefixes -/
def sha256Fns : HashFns Bytes where
  empty := Sha256.hash []
  leaf b := Sha256.hash (0x00 :: b)
  inner l r := Sha256.hash (0x01 :: (l ++ r))

/-- `usize::next_power_of_two` (smallest power of two `≥ n`; 1 for 0), without the overflow case -/
def nextPow2 (n : Nat) : Nat :=
  if n ≤ 1 then 1 else 2 ^ ((n - 1).log2 + 1)

/-- `total.next_power_of_two() / 2`: for `n ≥ 2` the largest power of two strictly below `n` -/
def splitPoint (n : Nat) : Nat := nextPow2 n / 2

theorem splitPoint_eq (n : Nat) (h : 2 ≤ n) : splitPoint n = 2 ^ (n - 1).log2 := by
  unfold splitPoint nextPow2
  rw [if_neg (by omega), Nat.pow_succ]
  omega

theorem splitPoint_lt (n : Nat) (h : 2 ≤ n) : splitPoint n < n := by
  rw [splitPoint_eq n h]
  have := @Nat.log2_self_le (n - 1) (by omega)
  omega

theorem splitPoint_pos (n : Nat) (h : 2 ≤ n) : 0 < splitPoint n := by
  rw [splitPoint_eq n h]
  exact Nat.pow_pos (by decide)

theorem le_two_mul_splitPoint (n : Nat) (h : 2 ≤ n) : n ≤ 2 * splitPoint n := by
  rw [splitPoint_eq n h]
  have := @Nat.lt_log2_self (n - 1)
  rw [Nat.pow_succ] at this
  omega

/-- `hash_byte_vectors` / `simple_hash_from_byte_vectors`: root of the tree over `leaves` -/
def root {D : Type} (H : HashFns D) (leaves : List Bytes) : D :=
  match leaves with
  | [] => H.empty
  | [x] => H.leaf x
  | a :: b :: rest =>
    let n := (a :: b :: rest).length
    let k := splitPoint n
    H.inner (root H ((a :: b :: rest).take k)) (root H ((a :: b :: rest).drop k))
termination_by leaves.length
decreasing_by
  · have h1 := splitPoint_lt (a :: b :: rest).length (by simp)
    have _h2 := splitPoint_pos (a :: b :: rest).length (by simp)
    simp only [List.length_take]
    omega
  · have _h2 := splitPoint_pos (a :: b :: rest).length (by simp)
    simp only [List.length_drop]
    simp only [List.length_cons] at *
    omega

/-- the same tree over already-hashed leaves (`hash_from_hashes`-style helpers, e.g. the row-root
    tree of a blob commitment hashes NMT roots as leaves through `root`; this variant is for callers
    that hold leaf digests) -/
def rootOfHashes {D : Type} (H : HashFns D) (hs : List D) : D :=
  match hs with
  | [] => H.empty
  | [x] => x
  | a :: b :: rest =>
    let n := (a :: b :: rest).length
    let k := splitPoint n
    H.inner (rootOfHashes H ((a :: b :: rest).take k)) (rootOfHashes H ((a :: b :: rest).drop k))
termination_by hs.length
decreasing_by
  · have h1 := splitPoint_lt (a :: b :: rest).length (by simp)
    have _h2 := splitPoint_pos (a :: b :: rest).length (by simp)
    simp only [List.length_take]
    omega
  · have _h2 := splitPoint_pos (a :: b :: rest).length (by simp)
    simp only [List.length_drop]
    simp only [List.length_cons] at *
    omega

/-- `hash_leaves_collecting_aunts(first_leaf_index, leaf_to_prove, leaves, &mut aunts)`:
    returns the subtree root and the extended aunt vector -/
def hashLeavesCollectingAunts {D : Type} (H : HashFns D) (first toProve : Nat) (leaves : List Bytes)
    (aunts : List D) : D × List D :=
  match leaves with
  | [] => (H.empty, aunts)
  | [x] => (H.leaf x, aunts)
  | a :: b :: rest =>
    let total := (a :: b :: rest).length
    let k := splitPoint total
    let l := hashLeavesCollectingAunts H first toProve ((a :: b :: rest).take k) aunts
    let r := hashLeavesCollectingAunts H (first + k) toProve ((a :: b :: rest).drop k) l.2
    let aunts' :=
      if first ≤ toProve ∧ toProve < first + total then
        if toProve < first + k then r.2 ++ [r.1] else r.2 ++ [l.1]
      else r.2
    (H.inner l.1 r.1, aunts')
termination_by leaves.length
decreasing_by
  · have h1 := splitPoint_lt (a :: b :: rest).length (by simp)
    have _h2 := splitPoint_pos (a :: b :: rest).length (by simp)
    simp only [List.length_take]
    omega
  · have _h2 := splitPoint_pos (a :: b :: rest).length (by simp)
    simp only [List.length_drop]
    simp only [List.length_cons] at *
    omega

/-- `MerkleProof` -/
structure Proof (D : Type) where
  index : Nat
  total : Nat
  leafHash : D
  aunts : List D

inductive Err where
  | indexOutOfRange      -- `Error::IndexOutOfRange` (MerkleProof::new)
  | differentLeaf        -- "proof created for a different leaf"
  | extraAunts           -- "extra aunts in proof"
  | auntsMissing         -- "aunts missing in proof"
  | rootMismatch         -- `Error::RootMismatch`
  | indexNotBelowTotal   -- index >= total (added by the C13 `fix:` commit)
  deriving DecidableEq, Repr

def Err.kind : Err → String
  | .indexOutOfRange => "IndexOutOfRange"
  | .differentLeaf => "DifferentLeaf"
  | .extraAunts => "ExtraAunts"
  | .auntsMissing => "AuntsMissing"
  | .rootMismatch => "RootMismatch"
  | .indexNotBelowTotal => "IndexNotBelowTotal"

/-- `MerkleProof::new(leaf_to_prove, leaves)` -/
def Proof.new {D : Type} (H : HashFns D) (leafToProve : Nat) (leaves : List Bytes) :
    Except Err (Proof D × D) :=
  if leaves.length ≤ leafToProve then .error .indexOutOfRange
  else
    let r := hashLeavesCollectingAunts H 0 leafToProve leaves []
    .ok ({ index := leafToProve, total := leaves.length,
           leafHash := H.leaf (leaves.getD leafToProve []), aunts := r.2 }, r.1)

/-- `subtree_root_from_aunts(index, total, leaf, aunts)` with the aunt slice given in REVERSE order
    (`split_last` = head of the reversed list), so that the recursion is structural.
    `total ≠ 0` is the function's `debug_assert`; see `subtreeRootFromAunts`. -/
def subtreeRootRev {D : Type} (H : HashFns D) (index total : Nat) (leaf : D) :
    List D → Except Err D
  | [] => if total = 1 then .ok leaf else .error .auntsMissing
  | sibling :: rest =>
    if total = 1 then .error .extraAunts
    else
      let k := splitPoint total
      if index < k then
        match subtreeRootRev H index k leaf rest with
        | .ok l => .ok (H.inner l sibling)
        | .error e => .error e
      else
        match subtreeRootRev H (index - k) (total - k) leaf rest with
        | .ok r => .ok (H.inner sibling r)
        | .error e => .error e

def subtreeRootFromAunts {D : Type} (H : HashFns D) (index total : Nat) (leaf : D) (aunts : List D) :
    Except Err D :=
  subtreeRootRev H index total leaf aunts.reverse

/-- Outcome of `MerkleProof::verify` in a debug build: the function can panic on
    `debug_assert_ne!(total, 0)` and on `usize::next_power_of_two` overflow (`total > 2^63`). -/
inductive Outcome where
  | ok
  | err (e : Err)
  | panic
  deriving DecidableEq, Repr

def usizeHalf : Nat := 2 ^ 63

/-- `MerkleProof::verify(leaf, root)` as in the ORIGINAL code (before the C13 fix): no
    `index < total` check.  Kept for the counterexample theorems. -/
def Proof.verifyOrig {D : Type} [DecidableEq D] (H : HashFns D) (p : Proof D) (leaf : Bytes) (rt : D) :
    Outcome :=
  let lh := H.leaf leaf
  if lh ≠ p.leafHash then .err .differentLeaf
  else if p.total = 0 ∨ usizeHalf < p.total then .panic
  else
    match subtreeRootFromAunts H p.index p.total lh p.aunts with
    | .error e => .err e
    | .ok r => if r ≠ rt then .err .rootMismatch else .ok

/-- `MerkleProof::verify(leaf, root)` (current code, with the `index >= total` rejection).
    `total = 0` is rejected by that check (every index is `≥ 0`), so the `debug_assert` is
    unreachable; `next_power_of_two` still overflows (debug panic) for `total > 2^63`
    (unreachable from the wire: `TryFrom<RawMerkleProof>` reads `total` from an `i64`). -/
def Proof.verify {D : Type} [DecidableEq D] (H : HashFns D) (p : Proof D) (leaf : Bytes) (rt : D) :
    Outcome :=
  let lh := H.leaf leaf
  if lh ≠ p.leafHash then .err .differentLeaf
  else if p.total ≤ p.index then .err .indexNotBelowTotal
  else if usizeHalf < p.total then .panic
  else
    match subtreeRootFromAunts H p.index p.total lh p.aunts with
    | .error e => .err e
    | .ok r => if r ≠ rt then .err .rootMismatch else .ok

/-! ### Idealised-hash hypotheses (used as explicit hypotheses of theorems, never as axioms) -/

/-- `inner` is collision free -/
def InnerInj {D : Type} (H : HashFns D) : Prop :=
  ∀ a b c d, H.inner a b = H.inner c d → a = c ∧ b = d

/-- `leaf` is collision free -/
def LeafInj {D : Type} (H : HashFns D) : Prop :=
  ∀ x y, H.leaf x = H.leaf y → x = y

/-- domain separation: a leaf digest is never an inner digest -/
def LeafNeInner {D : Type} (H : HashFns D) : Prop :=
  ∀ x a b, H.leaf x ≠ H.inner a b

/-- an explicit collision of `leaf` or of `inner` -/
def Collision {D : Type} (H : HashFns D) : Prop :=
  (∃ x y, x ≠ y ∧ H.leaf x = H.leaf y) ∨
  (∃ a b c d, (a ≠ c ∨ b ≠ d) ∧ H.inner a b = H.inner c d)

/-- A collision-free instance witnessing that the hypotheses are satisfiable: digests are the
    merkle terms themselves (the free algebra). -/
inductive Term where
  | empty
  | leaf (b : Bytes)
  | inner (l r : Term)
  deriving DecidableEq, Repr

def termFns : HashFns Term where
  empty := .empty
  leaf := .leaf
  inner := .inner

end Lumina.Model.Merkle

/-
  C42 — model of `lumina_utils::executor::{spawn, spawn_cancellable, JoinHandle}` and
  `lumina_utils::token::{Token, TokenTriggerDropGuard}` as a labelled transition system.

  Rust (utils/src/executor.rs)                                       model
  -----------------------------------------------------------------  ---------------------------------
  let token = Token::new(); let guard = token.trigger_drop_guard();  Label.spawn cancellable tok: new task,
  tokio::spawn(async move { let _guard = guard; … }); JoinHandle(token)      pc = ready, triggered = false
  one poll of the task by the runtime
     spawn_cancellable: select! { biased;                            Label.begin i:  ready → ended cancelled   (token cancelled)
          _ = cancelation_token.cancelled() => {}                                    ready → checked           (otherwise; always for `spawn`)
          _ = future => {} }                                         Label.inner i b: checked → ready          (b = pending)
     spawn: future.await                                                             checked → ended finished  (b = ready)
                                                                                      checked → ended panicked  (b = panic)
  the runtime drops the task between polls (shutdown / abort)        Label.abort i:  ready → ended aborted
  `_guard` (a local of the task's future, declared first, so         Label.dropGuard i: ended _, not triggered → triggered
   dropped last) is dropped: TokenTriggerDropGuard::drop → cancel()
  CancellationToken::cancel() on the caller's token                  Label.cancel tok
  JoinHandle::join  = token.triggered().await                        resolves iff `triggered`

  THE ASSUMPTION (rustc/tokio, not proved): the locals of the task's future are dropped exactly
  when the future completes, unwinds from a panic inside `poll`, or is dropped by the runtime —
  i.e. `dropGuard i` is enabled exactly in the `ended` states; and tokio polls a woken task.
  The model is thin: the claim rests mostly on the correspondence (C42 is labelled partial).

  Any number of tasks and tokens, any interleaving.  Import-free.
-/
namespace Lumina.Model.Tasks

inductive End where
  | finished
  | panicked
  | cancelled
  | aborted
  deriving DecidableEq, Repr, Inhabited

inductive Pc where
  /-- between polls -/
  | ready
  /-- inside a poll, cancellation has been checked (or is not checked at all), the inner future is about to be polled -/
  | checked
  /-- the inner future is gone -/
  | ended (how : End)
  deriving DecidableEq, Repr, Inhabited

/-- what the inner future does when polled (chosen by the environment) -/
inductive Beh where
  | pending
  | ready
  | panic
  deriving DecidableEq, Repr, Inhabited

structure Task where
  cancellable : Bool
  tok : Nat
  pc : Pc
  /-- the JoinHandle's token has been triggered -/
  triggered : Bool
  /-- ghost: number of polls of the inner future -/
  polls : Nat
  /-- ghost: polls of the inner future that began after its cancellation token was cancelled -/
  latePolls : Nat
  deriving DecidableEq, Repr, Inhabited

structure State where
  tasks : List Task
  cancelled : List Nat
  deriving DecidableEq, Repr, Inhabited

inductive Label where
  | spawn (cancellable : Bool) (tok : Nat)
  | begin (i : Nat)
  | inner (i : Nat) (b : Beh)
  | abort (i : Nat)
  | dropGuard (i : Nat)
  | cancel (tok : Nat)
  deriving DecidableEq, Repr, Inhabited

def init : State := { tasks := [], cancelled := [] }

def isCancelled (s : State) (t : Task) : Bool := t.cancellable && s.cancelled.contains t.tok

def setTask (s : State) (i : Nat) (t : Task) : State := { s with tasks := s.tasks.set i t }

def step (s : State) : Label → Option State
  | .spawn c tok =>
    some { s with tasks := s.tasks ++ [{ cancellable := c, tok := tok, pc := .ready, triggered := false,
                                          polls := 0, latePolls := 0 }] }
  | .begin i =>
    match s.tasks[i]? with
    | some t =>
      if t.pc = .ready then
        if isCancelled s t then some (setTask s i { t with pc := .ended .cancelled })
        else some (setTask s i { t with pc := .checked })
      else none
    | none => none
  | .inner i b =>
    match s.tasks[i]? with
    | some t =>
      if t.pc = .checked then
        let t1 := { t with polls := t.polls + 1,
                           latePolls := if isCancelled s t then t.latePolls + 1 else t.latePolls }
        match b with
        | .pending => some (setTask s i { t1 with pc := .ready })
        | .ready => some (setTask s i { t1 with pc := .ended .finished })
        | .panic => some (setTask s i { t1 with pc := .ended .panicked })
      else none
    | none => none
  | .abort i =>
    match s.tasks[i]? with
    | some t => if t.pc = .ready then some (setTask s i { t with pc := .ended .aborted }) else none
    | none => none
  | .dropGuard i =>
    match s.tasks[i]? with
    | some t =>
      match t.pc with
      | .ended _ => if t.triggered then none else some (setTask s i { t with triggered := true })
      | _ => none
    | none => none
  | .cancel tok => some { s with cancelled := tok :: s.cancelled }

/-- the negative control: `let _ = guard;` instead of `let _guard = guard;` — the guard is dropped
    at the start of the task's first poll instead of living as long as the task's future -/
def stepBad (s : State) : Label → Option State
  | .begin i =>
    match s.tasks[i]? with
    | some t =>
      if t.pc = .ready then
        let t0 := { t with triggered := true }
        if isCancelled s t then some (setTask s i { t0 with pc := .ended .cancelled })
        else some (setTask s i { t0 with pc := .checked })
      else none
    | none => none
  | l => step s l

def runWith (st : State → Label → Option State) (s : State) : List Label → Option State
  | [] => some s
  | l :: ls => match st s l with
    | some s' => runWith st s' ls
    | none => none

def run := runWith step
def runBad := runWith stepBad

def isEnded : Pc → Bool
  | .ended _ => true
  | _ => false

/-- `JoinHandle::join` resolves -/
def joinResolves (s : State) (i : Nat) : Bool :=
  match s.tasks[i]? with
  | some t => t.triggered
  | none => false

/-- steps still needed before the join handle of a task whose cancellation token is cancelled
    (or that has ended) resolves: strictly decreases with each step of that task -/
def remaining (t : Task) : Nat :=
  match t.pc with
  | .checked => 3
  | .ready => 2
  | .ended _ => if t.triggered then 0 else 1

end Lumina.Model.Tasks

/-
  Executable model of `/repo/node/src/pruner.rs`.

  Part 1 (C36): the window-edge search
    `find_height_after_window`, `find_height_after_window_fast`, `find_height_after_window_slow`.
  Part 2 (C35): `Worker::update_cached_data`, `Worker::get_next_prunable_batch`, the removal
    loop of `Worker::run`.

  Conventions
  * `BlockRanges` values are `Lumina.Model.Ranges.Ranges`; every `BlockRanges` method is the
    model function of `Model/Ranges.lean` (debug-build panics are the outcome `.panic`).
  * `tendermint::Time` is a `Nat` (any totally ordered tick; the code only compares times).
  * The header store is `store : Nat → Option Nat` (height ↦ time of the stored header):
    `Cache::get_block_info` = `store.get_by_height(h)?.time()`; a missing header is the pruner's
    fatal `StoreError::NotFound` (`PErr.storeNotFound`).  The `block_info` memo table of `Cache`
    is transparent (a header's time never changes) and is not modelled.
  * `find_height_after_window_slow` is a `while let Some(..) = ranges.partitions()` loop with no
    counter.  The model is a well-founded recursion on `span ranges` (head − tail + 1).  Lean needs
    the decrease *inside* the definition, so the recursive calls sit under the test
    `span left < span ranges ∧ span right < span ranges`; the other branch is the distinguished
    outcome `PErr.diverge` ("the Rust loop would not be making progress").  That this outcome
    never happens for a well-formed `BlockRanges` — i.e. the termination of the Rust loop — is a
    proof obligation (`Props/C36.lean: findSlow_terminates`), not an assumption, and there is no fuel.

  Import-free apart from `Model/Ranges.lean`.
-/
import Lumina.Model.Ranges

namespace Lumina.Model.Pruner
open Lumina.Model.Ranges

/-- error outcomes of the pruner's functions -/
inductive PErr where
  /-- `StoreError::NotFound` from `store.get_by_height` / `get_sampling_metadata` / `remove_height` -/
  | storeNotFound
  /-- a debug-build panic inside a `BlockRanges` operation or an `.expect(..)` -/
  | panic
  /-- the binary-search loop is not making progress (see the header comment) -/
  | diverge
  /-- the `Daser` channel is gone (`DaserError`) -/
  | daser
deriving DecidableEq, Repr, Inhabited

abbrev PRes := Except PErr

/-- a `BlockRanges` operation inside the pruner: every failure of those used here is a panic -/
def liftR {α} (x : Ranges.Res α) : PRes α :=
  match x with
  | .ok a => .ok a
  | .error _ => .error .panic

/-- `cache.get_block_info(store, height).await?.time` -/
def getBlockTime (store : Nat → Option Nat) (height : Nat) : PRes Nat :=
  match store height with
  | some t => .ok t
  | none => .error .storeNotFound

/-- the twice-occurring tail of the fast path:
    `if stored.contains(prev) { Some(prev) } else { stored.left_of(prev) }` -/
def prevOrLeft (stored : Ranges) (prev : Nat) : PRes (Option Nat) :=
  if contains stored prev then .ok (some prev) else liftR (leftOf stored prev)

/-- `find_height_after_window_fast`.
    `.ok none` = binary search needed, `.ok (some none)` = nothing after the window,
    `.ok (some (some h))` = the height. -/
def findFast (store : Nat → Option Nat) (stored : Ranges) (cutoff : Nat) (prev : Option Nat) :
    PRes (Option (Option Nat)) :=
  match prev with
  | some p =>
    match liftR (rightOf stored p) with
    | .error e => .error e
    | .ok (some r) =>
      match getBlockTime store r with
      | .error e => .error e
      | .ok t =>
        -- the block on the right is still within the window
        if cutoff < t then
          match prevOrLeft stored p with
          | .error e => .error e
          | .ok x => .ok (some x)
        else
          match liftR (rightOf stored r) with
          | .error e => .error e
          | .ok (some rr) =>
            match getBlockTime store rr with
            | .error e => .error e
            | .ok t2 => if cutoff < t2 then .ok (some (some r)) else .ok none
          | .ok none => .ok (some (some r))
    | .ok none =>
      match prevOrLeft stored p with
      | .error e => .error e
      | .ok x => .ok (some x)
  | none =>
    match tail stored with
    | none => .ok (some none)
    | some tl =>
      match getBlockTime store tl with
      | .error e => .error e
      | .ok t => if cutoff < t then .ok (some none) else .ok none

/-- the measure of the binary search: `head − tail + 1` (0 for the empty value) -/
def span (rs : Ranges) : Nat :=
  match head rs, tail rs with
  | some h, some t => h + 1 - t
  | _, _ => 0

/-- `BlockInfo { height, time }` -/
abbrev BlockInfo := Nat × Nat

/-- `if highest.is_none_or(|h| h.time < middle.time) { highest = Some(middle) }` -/
def updHighest (highest : Option BlockInfo) (middle : BlockInfo) : Option BlockInfo :=
  match highest with
  | none => some middle
  | some hi => if hi.2 < middle.2 then some middle else some hi

/-- the `while let Some((left, middle, right)) = ranges.partitions()` loop of
    `find_height_after_window_slow` -/
def findSlowGo (store : Nat → Option Nat) (cutoff : Nat) (ranges : Ranges)
    (highest : Option BlockInfo) : PRes (Option Nat) :=
  match partitions ranges with
  | .error _ => .error .panic
  | .ok none => .ok (highest.map (fun b => b.1))
  | .ok (some (left, middle, right)) =>
    if _hdec : span left < span ranges ∧ span right < span ranges then
      match getBlockTime store middle with
      | .error e => .error e
      | .ok t =>
        if t < cutoff then
          findSlowGo store cutoff right (updHighest highest (middle, t))
        else
          findSlowGo store cutoff left highest
    else .error .diverge
termination_by span ranges
decreasing_by
  · exact _hdec.2
  · exact _hdec.1

/-- `find_height_after_window_slow` -/
def findSlow (store : Nat → Option Nat) (stored : Ranges) (cutoff : Nat) : PRes (Option Nat) :=
  findSlowGo store cutoff stored none

/-- `find_height_after_window` -/
def find (store : Nat → Option Nat) (stored : Ranges) (cutoff : Nat) (prev : Option Nat) :
    PRes (Option Nat) :=
  match findFast store stored cutoff prev with
  | .error e => .error e
  | .ok (some res) => .ok res
  | .ok none => findSlow store stored cutoff

end Lumina.Model.Pruner

/-
  Executable model of `/repo/node/src/pruner.rs`.

  Part 1 (C36): the window-edge search
    `find_height_after_window`, `find_height_after_window_fast`, `find_height_after_window_slow`.
  Part 2 (C35): `Worker::update_cached_data`, `Worker::get_next_prunable_batch`, the removal
    loop of `Worker::run`.

  Conventions
  * `BlockRanges` values are `Lumina.Model.Ranges.Ranges`; every `BlockRanges` method is the
    model function of `Model/Ranges.lean` (debug-build panics are the outcome `.panic`).
  * `tendermint::Time` is a `Nat` (any totally ordered tick; the code only compares times).
  * The header store is `store : Nat → Option Nat` (height ↦ time of the stored header):
    `Cache::get_block_info` = `store.get_by_height(h)?.time()`; a missing header is the pruner's
    fatal `StoreError::NotFound` (`PErr.storeNotFound`).  The `block_info` memo table of `Cache`
    is transparent (a header's time never changes) and is not modelled.
  * `find_height_after_window_slow` is a `while let Some(..) = ranges.partitions()` loop with no
    counter.  The model is a well-founded recursion on `span ranges` (head − tail + 1).  Lean needs
    the decrease *inside* the definition, so the recursive calls sit under the test
    `span left < span ranges ∧ span right < span ranges`; the other branch is the distinguished
    outcome `PErr.diverge` ("the Rust loop would not be making progress").  That this outcome
    never happens for a well-formed `BlockRanges` — i.e. the termination of the Rust loop — is a
    proof obligation (`Props/C36.lean: findSlow_terminates`), not an assumption, and there is no fuel.

  Import-free apart from `Model/Ranges.lean`.
-/
import Lumina.Model.Ranges

namespace Lumina.Model.Pruner
open Lumina.Model.Ranges

/-- error outcomes of the pruner's functions -/
inductive PErr where
  /-- `StoreError::NotFound` from `store.get_by_height` / `get_sampling_metadata` / `remove_height` -/
  | storeNotFound
  /-- a debug-build panic inside a `BlockRanges` operation or an `.expect(..)` -/
  | panic
  /-- the binary-search loop is not making progress (see the header comment) -/
  | diverge
  /-- the `Daser` channel is gone (`DaserError`) -/
  | daser
deriving DecidableEq, Repr, Inhabited

abbrev PRes := Except PErr

/-- a `BlockRanges` operation inside the pruner: every failure of those used here is a panic -/
def liftR {α} (x : Ranges.Res α) : PRes α :=
  match x with
  | .ok a => .ok a
  | .error _ => .error .panic

/-- `cache.get_block_info(store, height).await?.time` -/
def getBlockTime (store : Nat → Option Nat) (height : Nat) : PRes Nat :=
  match store height with
  | some t => .ok t
  | none => .error .storeNotFound

/-- the twice-occurring tail of the fast path:
    `if stored.contains(prev) { Some(prev) } else { stored.left_of(prev) }` -/
def prevOrLeft (stored : Ranges) (prev : Nat) : PRes (Option Nat) :=
  if contains stored prev then .ok (some prev) else liftR (leftOf stored prev)

/-- `find_height_after_window_fast`.
    `.ok none` = binary search needed, `.ok (some none)` = nothing after the window,
    `.ok (some (some h))` = the height. -/
def findFast (store : Nat → Option Nat) (stored : Ranges) (cutoff : Nat) (prev : Option Nat) :
    PRes (Option (Option Nat)) :=
  match prev with
  | some p =>
    match liftR (rightOf stored p) with
    | .error e => .error e
    | .ok (some r) =>
      match getBlockTime store r with
      | .error e => .error e
      | .ok t =>
        -- the block on the right is still within the window
        if cutoff < t then
          match prevOrLeft stored p with
          | .error e => .error e
          | .ok x => .ok (some x)
        else
          match liftR (rightOf stored r) with
          | .error e => .error e
          | .ok (some rr) =>
            match getBlockTime store rr with
            | .error e => .error e
            | .ok t2 => if cutoff < t2 then .ok (some (some r)) else .ok none
          | .ok none => .ok (some (some r))
    | .ok none =>
      match prevOrLeft stored p with
      | .error e => .error e
      | .ok x => .ok (some x)
  | none =>
    match tail stored with
    | none => .ok (some none)
    | some tl =>
      match getBlockTime store tl with
      | .error e => .error e
      | .ok t => if cutoff < t then .ok (some none) else .ok none

/-- the measure of the binary search: `head − tail + 1` (0 for the empty value) -/
def span (rs : Ranges) : Nat :=
  match head rs, tail rs with
  | some h, some t => h + 1 - t
  | _, _ => 0

/-- `BlockInfo { height, time }` -/
abbrev BlockInfo := Nat × Nat

/-- `if highest.is_none_or(|h| h.time < middle.time) { highest = Some(middle) }` -/
def updHighest (highest : Option BlockInfo) (middle : BlockInfo) : Option BlockInfo :=
  match highest with
  | none => some middle
  | some hi => if hi.2 < middle.2 then some middle else some hi

/-- the `while let Some((left, middle, right)) = ranges.partitions()` loop of
    `find_height_after_window_slow` -/
def findSlowGo (store : Nat → Option Nat) (cutoff : Nat) (ranges : Ranges)
    (highest : Option BlockInfo) : PRes (Option Nat) :=
  match partitions ranges with
  | .error _ => .error .panic
  | .ok none => .ok (highest.map (fun b => b.1))
  | .ok (some (left, middle, right)) =>
    if _hdec : span left < span ranges ∧ span right < span ranges then
      match getBlockTime store middle with
      | .error e => .error e
      | .ok t =>
        if t < cutoff then
          findSlowGo store cutoff right (updHighest highest (middle, t))
        else
          findSlowGo store cutoff left highest
    else .error .diverge
termination_by span ranges
decreasing_by
  · exact _hdec.2
  · exact _hdec.1

/-- `find_height_after_window_slow` -/
def findSlow (store : Nat → Option Nat) (stored : Ranges) (cutoff : Nat) : PRes (Option Nat) :=
  findSlowGo store cutoff stored none

/-- `find_height_after_window` -/
def find (store : Nat → Option Nat) (stored : Ranges) (cutoff : Nat) (prev : Option Nat) :
    PRes (Option Nat) :=
  match findFast store stored cutoff prev with
  | .error e => .error e
  | .ok (some res) => .ok res
  | .ok none => findSlow store stored cutoff

/-! ## Part 2 (C35): the cached window edges, `get_next_prunable_batch`, the removal loop

  * The store as the pruner sees it is `PStore`: the three `BlockRanges` tables, the header
    time of every height of the chain and the CIDs of the sampling metadata.
  * The `Daser` is an oracle `grant : Nat → Bool` (its answer to `WantToPrune(height)` during this
    call); what the pruner sends to it is the returned message trace.
  * `Cache.updated_at.elapsed() < update_after` (a wall-clock test) is the input `refresh`.
  * `for height in ranges.rev()` (repeated `pop_head`) is the descending enumeration of the
    heights, `for height in range` the ascending one.
  * `MAX_PRUNABLE_BATCH_SIZE` is the parameter `limit` (instantiated with the regenerated
    constant by the driver and by `Props/C35.lean`).
-/

/-- the pruner's view of `Store` -/
structure PStore where
  stored : Ranges := []
  pruned : Ranges := []
  sampled : Ranges := []
  /-- header time of every height of the chain (meaningful for stored heights) -/
  time : Nat → Nat := fun _ => 0
  /-- `get_sampling_metadata(h).cids` (`[]` when no metadata is recorded) -/
  cids : Nat → List Nat := fun _ => []

/-- `store.get_by_height(h).time()` -/
def PStore.lookup (s : PStore) (h : Nat) : Option Nat :=
  if contains s.stored h then some (s.time h) else none

/-- `Cache` without the memo table -/
structure Cache where
  afterPruning : Option Nat := none
  afterSampling : Option Nat := none
deriving DecidableEq, Repr

/-- the mutable part of `Worker` -/
structure Worker where
  cache : Cache := {}
  prevNum : Nat := 0
deriving DecidableEq, Repr

/-- what the pruner sends to the `Daser` -/
inductive Msg where
  | updateHighest (h : Nat)
  | updateNum (n : Nat)
  | wantToPrune (h : Nat) (answer : Bool)
deriving DecidableEq, Repr

/-- `<` on `Option<u64>` (`None < Some(_)`) -/
def optLt : Option Nat → Option Nat → Bool
  | none, some _ => true
  | some a, some b => decide (a < b)
  | _, none => false

/-- `cache.after_X.and_then(|h| stored.right_of(h))` (only its panics matter: the result feeds
    the memo-table garbage collection) -/
def keepRight (stored : Ranges) : Option Nat → PRes Unit
  | none => .ok ()
  | some h =>
    match liftR (rightOf stored h) with
    | .ok _ => .ok ()
    | .error e => .error e

/-- `Worker::update_cached_data` -/
def updateCachedData (s : PStore) (c : Cache) (sc pc : Nat) (refresh : Bool) :
    PRes (Cache × List Msg) :=
  if !refresh then .ok (c, [])
  else
    match find s.lookup s.stored sc c.afterSampling with
    | .error e => .error e
    | .ok aS =>
      match find s.lookup s.stored pc c.afterPruning with
      | .error e => .error e
      | .ok aP =>
        let c1 : Cache := if optLt c.afterSampling aS then { c with afterSampling := aS } else c
        let (c2, msgs) : Cache × List Msg :=
          if optLt c1.afterPruning aP then
            ({ c1 with afterPruning := aP },
              match aP with
              | some h => [Msg.updateHighest h]
              | none => [])
          else (c1, [])
        match keepRight s.stored c2.afterSampling with
        | .error e => .error e
        | .ok _ =>
          match keepRight s.stored c2.afterPruning with
          | .error e => .error e
          | .ok _ => .ok (c2, msgs)

/-- `edge.map(|h| BlockRanges::try_from(1..=h).expect("never fails")).unwrap_or_default()` -/
def areaUpTo : Option Nat → PRes Ranges
  | some h => liftR (expectOk (ofRange (1, h)))
  | none => .ok []

/-- the loop asking the `Daser` for everything beyond both windows (heights in descending order) -/
def daserLoop (limit : Nat) (sampled : Ranges) (grant : Nat → Bool) :
    List Nat → Ranges → List Msg → PRes (Ranges × List Msg)
  | [], batch, tr => .ok (batch, tr)
  | h :: rest, batch, tr =>
    match liftR (len batch) with
    | .error e => .error e
    | .ok n =>
      if n == limit then .ok (batch, tr)
      else if contains sampled h then
        match liftR (expectOk (insertRelaxed batch (h, h))) with
        | .error e => .error e
        | .ok b => daserLoop limit sampled grant rest b tr
      else
        let ans := grant h
        let tr' := tr ++ [Msg.wantToPrune h ans]
        if ans then
          match liftR (expectOk (insertRelaxed batch (h, h))) with
          | .error e => .error e
          | .ok b => daserLoop limit sampled grant rest b tr'
        else daserLoop limit sampled grant rest batch tr'

/-- the `BlockRanges` algebra of `get_next_prunable_batch` after the cache update:
    `(after_sampling_window, prunable_and_sampled)` -/
def batchSets (s : PStore) (c : Cache) : PRes (Ranges × Ranges) := do
  let nonSamplingArea ← areaUpTo c.afterSampling
  let prunableArea ← areaUpTo c.afterPruning
  let synced ← liftR (add s.pruned s.stored)
  let edges ← liftR (edges synced)
  let candidates ← liftR (bitAnd s.stored prunableArea)
  let afterSW ← liftR (bitAnd candidates nonSamplingArea)
  let t1 ← liftR (sub candidates afterSW)
  let t2 ← liftR (sub t1 edges)
  let prunableAndSampled ← liftR (bitAnd t2 s.sampled)
  pure (afterSW, prunableAndSampled)

/-- `Worker::get_next_prunable_batch`: the batch, the worker afterwards, the messages to the `Daser` -/
def getNextPrunableBatch (limit : Nat) (s : PStore) (w : Worker) (sc pc : Nat) (refresh : Bool)
    (grant : Nat → Bool) : PRes (Ranges × Worker × List Msg) := do
  let (c, tr0) ← updateCachedData s w.cache sc pc refresh
  let (afterSW, prunableAndSampled) ← batchSets s c
  let n1 ← liftR (len afterSW)
  let n2 ← liftR (len prunableAndSampled)
  let num ← liftR (addU64 n1 n2)
  let (prevNum, tr1) : Nat × List Msg :=
    if w.prevNum != num then (num, [Msg.updateNum num]) else (w.prevNum, [])
  let batch0 ← liftR (headn prunableAndSampled limit)
  let (batch, tr2) ← daserLoop limit s.sampled grant (heights afterSW).reverse batch0 []
  pure (batch, { cache := c, prevNum := prevNum }, tr0 ++ tr1 ++ tr2)

/-- effects of the removal loop of `Worker::run` -/
inductive Eff where
  | bsRemove (cid : Nat)
  | removeHeight (h : Nat)
  | prunedEvent (fromH toH : Nat)
deriving DecidableEq, Repr

/-- `InMemoryStore::remove_height` as far as the pruner's view goes -/
def PStore.removeHeight (s : PStore) (h : Nat) : PRes PStore :=
  if !contains s.stored h then .error .storeNotFound
  else do
    let st ← liftR (expectOk (removeRelaxed s.stored (h, h)))
    let sa ← liftR (expectOk (removeRelaxed s.sampled (h, h)))
    let pr ← liftR (expectOk (insertRelaxed s.pruned (h, h)))
    pure { s with stored := st, sampled := sa, pruned := pr,
                  cids := fun x => if x = h then [] else s.cids x }

/-- body of `for height in range`: metadata CIDs out of the blockstore, then the header -/
def pruneHeight (s : PStore) (h : Nat) : PRes (PStore × List Eff) :=
  -- `get_sampling_metadata(height)?`: NotFound when the header is not in the store
  if !contains s.stored h then .error .storeNotFound
  else
    let cids := s.cids h
    match s.removeHeight h with
    | .error e => .error e
    | .ok s' => .ok (s', cids.map Eff.bsRemove ++ [Eff.removeHeight h])

def pruneHeights : PStore → List Nat → List Eff → PRes (PStore × List Eff)
  | s, [], acc => .ok (s, acc)
  | s, h :: rest, acc =>
    match pruneHeight s h with
    | .error e => .error e
    | .ok (s', effs) => pruneHeights s' rest (acc ++ effs)

/-- one range of the batch, then the `PrunedHeaders` event -/
def pruneRange (s : PStore) (r : Range) : PRes (PStore × List Eff) :=
  match pruneHeights s (List.range' r.1 (r.2 + 1 - r.1)) [] with
  | .error e => .error e
  | .ok (s', effs) =>
    .ok (s', if r.1 ≤ r.2 then effs ++ [Eff.prunedEvent r.1 r.2] else effs)

/-- `for range in prunable_batch.into_inner()` -/
def pruneBatch : PStore → List Range → List Eff → PRes (PStore × List Eff)
  | s, [], acc => .ok (s, acc)
  | s, r :: rest, acc =>
    match pruneRange s r with
    | .error e => .error e
    | .ok (s', effs) => pruneBatch s' rest (acc ++ effs)

/-- one iteration of the `Worker::run` loop with an uncancelled token: compute the batch, remove it -/
def runIteration (limit : Nat) (s : PStore) (w : Worker) (sc pc : Nat) (refresh : Bool)
    (grant : Nat → Bool) : PRes (PStore × Worker × Ranges × List Msg × List Eff) :=
  match getNextPrunableBatch limit s w sc pc refresh grant with
  | .error e => .error e
  | .ok (batch, w', msgs) =>
    match pruneBatch s batch [] with
    | .error e => .error e
    | .ok (s', effs) => .ok (s', w', batch, msgs, effs)

end Lumina.Model.Pruner

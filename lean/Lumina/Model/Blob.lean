/-
  Blob ↔ shares.

  Transcribes `split_blob_to_shares`, `build_sparse_share`, `validate_blob`
  (/repo/types/src/blob/commitment.rs), `Blob::{new (without the commitment), to_shares,
  reconstruct, reconstruct_all, shares_len}`, `shares_needed_for_blob` (/repo/types/src/blob.rs),
  `InfoByte::{new, from_raw, version, is_sequence_start}` (share/info_byte.rs) and
  `Share::{from_raw, namespace, info_byte, sequence_length, signer, payload}` (share.rs).

  Sizes come from `Lumina.Gen.C11` (regenerated from /repo on every run).  The commitment stored in a
  `Blob` is a function of (namespace, data, share version, signer, app version) and is the subject
  of C12; here a blob is those four fields.
-/
import Lumina.Gen.C11
import Lumina.Model.Namespace

namespace Lumina.Model.Blob
open Lumina.Util Lumina.Gen.C11

inductive Err where
  | unsupportedShareVersion (v : Nat)
  | signerNotSupported
  | missingSigner
  | maxShareVersionExceeded (v : Nat)
  | shareSequenceLenExceeded
  | invalidShareSize (n : Nat)
  | ns (e : Namespace.Err)
  | missingShares
  | expectedShareWithSequenceStart
  | unexpectedReservedNamespace
  | blobSharesMetadataMismatch
  | unexpectedSequenceStart
  | fuel                                   -- model recursion fuel exhausted: unreachable
  deriving DecidableEq, Repr

def Err.kind : Err → String
  | .unsupportedShareVersion v => s!"UnsupportedShareVersion({v})"
  | .signerNotSupported => "SignerNotSupported"
  | .missingSigner => "MissingSigner"
  | .maxShareVersionExceeded v => s!"MaxShareVersionExceeded({v})"
  | .shareSequenceLenExceeded => "ShareSequenceLenExceeded"
  | .invalidShareSize n => s!"InvalidShareSize({n})"
  | .ns e => e.kind
  | .missingShares => "MissingShares"
  | .expectedShareWithSequenceStart => "ExpectedShareWithSequenceStart"
  | .unexpectedReservedNamespace => "UnexpectedReservedNamespace"
  | .blobSharesMetadataMismatch => "BlobSharesMetadataMismatch"
  | .unexpectedSequenceStart => "UnexpectedSequenceStart"
  | .fuel => "model-fuel"

/-- `SHARE_SEQUENCE_LENGTH_OFFSET = NS_SIZE + SHARE_INFO_BYTES` -/
def SEQ_LEN_OFFSET : Nat := NS_SIZE + SHARE_INFO_BYTES
/-- `SHARE_SIGNER_OFFSET = SHARE_SEQUENCE_LENGTH_OFFSET + SEQUENCE_LEN_BYTES` -/
def SIGNER_OFFSET : Nat := SEQ_LEN_OFFSET + SEQUENCE_LEN_BYTES

/-- the blob fields that determine its shares -/
structure Blob where
  ns : Bytes                 -- `Namespace` (29 valid bytes)
  data : Bytes
  shareVersion : Nat         -- u8
  signer : Option Bytes      -- `AccAddress` (20 bytes)
  deriving DecidableEq, Repr

/-- `celestia_types::Share { data: [u8; 512], is_parity }` -/
structure Share where
  data : Bytes
  isParity : Bool
  deriving DecidableEq, Repr

/-- big-endian bytes of `n`, `w` bytes (`put_u32`) -/
def be : Nat → Nat → Bytes
  | 0, _ => []
  | w + 1, n => UInt8.ofNat (n / 256 ^ w % 256) :: be w n

/-- `u32::from_be_bytes` -/
def ofBe (bs : Bytes) : Nat := bs.foldl (fun acc b => acc * 256 + b.toNat) 0

/-! ### InfoByte -/

/-- `InfoByte::new(version, is_sequence_start)` -/
def infoByteNew (version : Nat) (isSeqStart : Bool) : Except Err UInt8 :=
  if version > MAX_SHARE_VERSION then .error (.maxShareVersionExceeded version)
  else .ok (UInt8.ofNat (version * 2 + (if isSeqStart then 1 else 0)))

/-- `InfoByte::from_raw`: `byte >> 1 > MAX_SHARE_VERSION` is impossible for `MAX_SHARE_VERSION = 127` -/
def infoByteFromRaw (b : UInt8) : Except Err UInt8 :=
  if b.toNat / 2 > MAX_SHARE_VERSION then .error (.maxShareVersionExceeded (b.toNat / 2)) else .ok b

def ibVersion (b : UInt8) : Nat := b.toNat / 2
def ibSeqStart (b : UInt8) : Bool := b.toNat % 2 == 1

/-! ### Share accessors -/

/-- `Share::from_raw` -/
def shareFromRaw (d : Bytes) : Except Err Share :=
  if d.length ≠ SHARE_SIZE then .error (.invalidShareSize d.length)
  else
    match Namespace.fromRaw (d.take NS_SIZE) with
    | .error e => .error (.ns e)
    | .ok _ =>
      match infoByteFromRaw (d.getD NS_SIZE 0) with
      | .error e => .error e
      | .ok _ => .ok ⟨d, false⟩

/-- `Namespace::PARITY_SHARE` -/
def parityNs : Bytes := List.replicate NS_SIZE 255

/-- `Share::namespace` -/
def Share.ns (s : Share) : Bytes := if s.isParity then parityNs else s.data.take NS_SIZE

/-- `Share::info_byte` -/
def Share.infoByte (s : Share) : Option UInt8 := if s.isParity then none else some (s.data.getD NS_SIZE 0)

/-- `Share::sequence_length` -/
def Share.sequenceLength (s : Share) : Option Nat :=
  match s.infoByte with
  | none => none
  | some ib =>
    if ibSeqStart ib then some (ofBe ((s.data.drop SEQ_LEN_OFFSET).take SEQUENCE_LEN_BYTES)) else none

/-- `Share::signer` -/
def Share.signer (s : Share) : Option Bytes :=
  match s.infoByte with
  | none => none
  | some ib =>
    if ibSeqStart ib && ibVersion ib == SHARE_VERSION_ONE then
      some ((s.data.drop SIGNER_OFFSET).take SIGNER_SIZE)
    else none

/-- `Share::payload` -/
def Share.payload (s : Share) : Option Bytes :=
  match s.infoByte with
  | none => none
  | some ib =>
    let start :=
      if ibSeqStart ib then
        if ibVersion ib == SHARE_VERSION_ONE then SIGNER_OFFSET + SIGNER_SIZE
        else SEQ_LEN_OFFSET + SEQUENCE_LEN_BYTES
      else SEQ_LEN_OFFSET
    some (s.data.drop start)

/-! ### blob → shares -/

def U32_MAX : Nat := 4294967295

/-- second half of `build_sparse_share`: given the bytes written so far (`header`), read as much
    data as fits, zero-pad to the share size and validate with `Share::from_raw` -/
def finishShare (header rest : Bytes) : Except Err (Share × Bytes) :=
  let available := SHARE_SIZE - header.length
  let readAmount := min available rest.length
  let bytes := header ++ rest.take readAmount ++ List.replicate (SHARE_SIZE - header.length - readAmount) 0
  match shareFromRaw bytes with
  | .error e => .error e
  | .ok s => .ok (s, rest.drop readAmount)

/-- `build_sparse_share`: `rest` is what the cursor has not consumed yet, `dataLen` the length of
    the whole blob.  Returns the share and the new rest. -/
def buildSparseShare (ns : Bytes) (shareVersion : Nat) (signer : Option Bytes) (dataLen : Nat)
    (isFirst : Bool) (rest : Bytes) : Except Err (Share × Bytes) :=
  match infoByteNew shareVersion isFirst with
  | .error e => .error e
  | .ok ib =>
    let hdr : Except Err Bytes :=
      if isFirst then
        if dataLen > U32_MAX then .error .shareSequenceLenExceeded
        else if shareVersion = SHARE_VERSION_ONE then
          match signer with
          | none => .error .missingSigner
          | some sg => .ok (ns ++ [ib] ++ be SEQUENCE_LEN_BYTES dataLen ++ sg)
        else .ok (ns ++ [ib] ++ be SEQUENCE_LEN_BYTES dataLen)
      else .ok (ns ++ [ib])
    match hdr with
    | .error e => .error e
    | .ok header => finishShare header rest

/-- the `while cursor.has_remaining()` loop of `split_blob_to_shares` -/
def splitLoop (ns : Bytes) (shareVersion : Nat) (signer : Option Bytes) (dataLen : Nat) :
    Nat → Bool → Bytes → Except Err (List Share)
  | 0, _, rest => if rest.isEmpty then .ok [] else .error .fuel
  | fuel + 1, isFirst, rest =>
    if rest.isEmpty then .ok []
    else
      match buildSparseShare ns shareVersion signer dataLen isFirst rest with
      | .error e => .error e
      | .ok (s, rest') =>
        match splitLoop ns shareVersion signer dataLen fuel false rest' with
        | .error e => .error e
        | .ok ss => .ok (s :: ss)

/-- `split_blob_to_shares(namespace, share_version, blob_data, signer)` = `Blob::to_shares` -/
def splitBlobToShares (ns : Bytes) (shareVersion : Nat) (data : Bytes) (signer : Option Bytes) :
    Except Err (List Share) :=
  splitLoop ns shareVersion signer data.length data.length true data

def Blob.toShares (b : Blob) : Except Err (List Share) :=
  splitBlobToShares b.ns b.shareVersion b.data b.signer

/-- `validate_blob(share_version, has_signer, Some(app_version))` -/
def validateBlob (shareVersion : Nat) (hasSigner : Bool) (appVersion : Nat) : Except Err Unit :=
  if shareVersion ≠ SHARE_VERSION_ZERO ∧ shareVersion ≠ SHARE_VERSION_ONE then
    .error (.unsupportedShareVersion shareVersion)
  else if shareVersion = SHARE_VERSION_ZERO ∧ hasSigner then .error .signerNotSupported
  else if shareVersion = SHARE_VERSION_ONE ∧ !hasSigner then .error .missingSigner
  else if shareVersion = SHARE_VERSION_ONE ∧ appVersion < 3 then .error (.unsupportedShareVersion shareVersion)
  else .ok ()

/-- `Blob::new(namespace, data, signer, app_version)` without the commitment value itself
    (`Commitment::from_blob` = `validate_blob`, `split_blob_to_shares`, then `from_shares`, which
    cannot fail on shares of one namespace) -/
def Blob.new (ns : Bytes) (data : Bytes) (signer : Option Bytes) (appVersion : Nat) : Except Err Blob :=
  let shareVersion := if signer.isNone then SHARE_VERSION_ZERO else SHARE_VERSION_ONE
  match validateBlob shareVersion signer.isSome appVersion with
  | .error e => .error e
  | .ok () =>
    match splitBlobToShares ns shareVersion data signer with
    | .error e => .error e
    | .ok _ => .ok ⟨ns, data, shareVersion, signer⟩

/-- `shares_needed_for_blob(blob_len, has_signer)` -/
def sharesNeededForBlob (blobLen : Nat) (hasSigner : Bool) : Nat :=
  let firstShareContent := if hasSigner then FIRST_SPARSE_SHARE_CONTENT_SIZE - SIGNER_SIZE
    else FIRST_SPARSE_SHARE_CONTENT_SIZE
  if blobLen < firstShareContent then 1
  else 1 + (blobLen - firstShareContent + CONTINUATION_SPARSE_SHARE_CONTENT_SIZE - 1) /
        CONTINUATION_SPARSE_SHARE_CONTENT_SIZE

/-- `Blob::shares_len` as in the ORIGINAL code: the signer is ignored -/
def Blob.sharesLenOrig (b : Blob) : Nat :=
  if b.data.length < FIRST_SPARSE_SHARE_CONTENT_SIZE then 1
  else 1 + (b.data.length - FIRST_SPARSE_SHARE_CONTENT_SIZE + CONTINUATION_SPARSE_SHARE_CONTENT_SIZE - 1) /
        CONTINUATION_SPARSE_SHARE_CONTENT_SIZE

/-- `Blob::shares_len` (current code) -/
def Blob.sharesLen (b : Blob) : Nat := sharesNeededForBlob b.data.length (b.shareVersion == SHARE_VERSION_ONE)

/-! ### shares → blob -/

/-- `Namespace::is_reserved`: `<= MAX_PRIMARY_RESERVED || >= MIN_SECONDARY_RESERVED` -/
def nsIsReserved (ns : Bytes) : Bool := Namespace.isReserved ns

/-- the `for _ in 1..shares_needed` loop of `Blob::reconstruct` -/
def reconLoop (ns : Bytes) (shareVersion : Nat) : Nat → List Share → Bytes → Except Err (Bytes × List Share)
  | 0, shares, acc => .ok (acc, shares)
  | n + 1, shares, acc =>
    match shares with
    | [] => .error .missingShares
    | s :: rest =>
      if s.ns ≠ ns then .error .blobSharesMetadataMismatch
      else
        match s.infoByte, s.payload with
        | some ib, some pl =>
          if ibVersion ib ≠ shareVersion then .error .blobSharesMetadataMismatch
          else if s.sequenceLength.isSome then .error .unexpectedSequenceStart
          else reconLoop ns shareVersion n rest (acc ++ pl)
        | _, _ => .error .fuel     -- `expect("non parity")`: unreachable, a parity share fails the namespace test

/-- `Blob::reconstruct(shares, app_version)`; also returns the unconsumed shares (the iterator state) -/
def reconstruct (shares : List Share) (appVersion : Nat) : Except Err (Blob × List Share) :=
  match shares with
  | [] => .error .missingShares
  | first :: rest =>
    match first.sequenceLength with
    | none => .error .expectedShareWithSequenceStart
    | some blobLen =>
      let ns := first.ns
      if nsIsReserved ns then .error .unexpectedReservedNamespace
      else
        match first.infoByte, first.payload with
        | some ib, some pl =>
          let shareVersion := ibVersion ib
          let signer := first.signer
          let needed := sharesNeededForBlob blobLen signer.isSome
          match reconLoop ns shareVersion (needed - 1) rest pl with
          | .error e => .error e
          | .ok (data, remaining) =>
            let data := data.take blobLen
            if shareVersion = SHARE_VERSION_ZERO then
              match Blob.new ns data none appVersion with
              | .error e => .error e
              | .ok b => .ok (b, remaining)
            else if shareVersion = SHARE_VERSION_ONE then
              match signer with
              | none => .error .missingSigner
              | some sg =>
                match Blob.new ns data (some sg) appVersion with
                | .error e => .error e
                | .ok b => .ok (b, remaining)
            else .error (.unsupportedShareVersion shareVersion)
        | _, _ => .error .fuel

/-- `Blob::reconstruct_all`: drop reserved-namespace shares, then repeatedly skip to the next sequence
    start and reconstruct one blob from there -/
def reconAllLoop (appVersion : Nat) : Nat → List Share → Except Err (List Blob)
  | 0, _ => .ok []
  | fuel + 1, shares =>
    match shares.dropWhile (fun s => s.sequenceLength.isNone) with
    | [] => .ok []
    | start :: rest =>
      match reconstruct (start :: rest) appVersion with
      | .error e => .error e
      | .ok (b, remaining) =>
        match reconAllLoop appVersion fuel remaining with
        | .error e => .error e
        | .ok bs => .ok (b :: bs)

def reconstructAll (shares : List Share) (appVersion : Nat) : Except Err (List Blob) :=
  let shares := shares.filter (fun s => !nsIsReserved s.ns)
  reconAllLoop appVersion (shares.length + 1) shares

end Lumina.Model.Blob

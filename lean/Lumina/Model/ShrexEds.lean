/-
  Model of the shrex EDS response codec (`node/src/p2p/shrex/codec.rs`,
  `impl ResponseCodec for ExtendedDataSquare`): `encode` and `decode_and_verify`.

  The payload is the original data square, row-major, 512 bytes per share, nothing else.  The decoder
  re-extends it (`ExtendedDataSquare::from_ods`, codec = parameter `enc`), recomputes the DAH
  (`DataAvailabilityHeader::from_eds`, hash = parameter `H`) and compares it with the header's.

  Owner: group D2.
-/
import Lumina.Model.EdsCode

namespace Lumina.Model.ShrexEds
open Lumina.Util Lumina.Model.Nmt Lumina.Model.Eds Lumina.Model.EdsCode

/-- outcome classes of `decode_and_verify` (all are `CodecError::ResponseDecode(_)` in Rust; the classes are
    told apart by the message) plus the distinguished "the Rust code panics" -/
inductive DecErr where
  /-- "Empty raw data" -/
  | emptyData
  /-- "Length of raw data of shares is not multiple of SHARE_SIZE" -/
  | notMultiple
  /-- `ExtendedDataSquare::from_ods` failed -/
  | fromOds (e : EdsErr)
  /-- "EDS verification failed: DAH missmatch" -/
  | dahMismatch
  /-- `DataAvailabilityHeader::from_eds` hit its `expect` or nmt-rs panicked -/
  | panic
  deriving DecidableEq, Repr, Inhabited

def DecErr.kind : DecErr → String
  | .emptyData => "ResponseDecode:EmptyRawData"
  | .notMultiple => "ResponseDecode:NotMultipleOfShareSize"
  | .fromOds e => "ResponseDecode:" ++ e.kind
  | .dahMismatch => "ResponseDecode:DahMismatch"
  | .panic => "panic"

def chunksAux (n : Nat) : Nat → Bytes → List Bytes
  | 0, _ => []
  | fuel + 1, l => if l.isEmpty then [] else l.take n :: chunksAux n fuel (l.drop n)

/-- `raw_data.chunks(n)` -/
def chunks (n : Nat) (l : Bytes) : List Bytes := chunksAux n l.length l

/-- `<ExtendedDataSquare as ResponseCodec>::decode_and_verify(raw_data, _req, dah, app_version)` -/
def decodeAndVerify (H : HashFn) (enc : List Bytes → List Bytes) (raw : Bytes) (dah : Dah) (ver : Nat) :
    Except DecErr Eds :=
  if raw.isEmpty then .error .emptyData
  else if raw.length % SHARE_SIZE ≠ 0 then .error .notMultiple
  else
    match fromOds enc ver (chunks SHARE_SIZE raw) with
    | .error e => .error (.fromOds e)
    | .ok eds =>
      match Dah.ofEds H eds with
      | .error _ => .error .panic
      | .ok computed => if computed ≠ dah then .error .dahMismatch else .ok eds

/-- `<ExtendedDataSquare as ResponseCodec>::encode`: quadrant 0, row-major; `none` = the
    `expect("Invalid square_width")` panic (the `debug_assert!(!share.is_parity())` is modelled too) -/
def encode (e : Eds) : Option Bytes :=
  let k := e.width / 2
  let cells := (List.range k).flatMap (fun r => (List.range k).map (fun c => e.share? r c))
  match optAll cells with
  | none => none
  | some shares => if shares.any (fun s => s.isParity) then none else some (shares.map Share.data).flatten

end Lumina.Model.ShrexEds

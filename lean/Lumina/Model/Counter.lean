/-
  C41 — model of `node/src/utils/counter.rs` as a labelled transition system.

  Rust                                                          model
  ------------------------------------------------------------  ---------------------------------
  Counter { counter: Arc<()>, notify: Arc<Notify> }             State { guards, epoch, waiter }
  Counter::guard(&self)          (clone of the Arc)             Label.newGuard   (only while no
                                                                `wait_guards` future borrows the
                                                                counter mutably: waiter = idle)
  CounterGuard::drop   self.counter.take()                      Label.decr i     alive → dec
                       self.notify.notify_waiters()             Label.notify i   dec → notified, epoch+1
  Counter::wait_guards(&mut self)   (call, future created)      Label.call       idle → start
      let mut notified = pin!(self.notify.notified());          Label.arm        start → armed epoch
      while Arc::strong_count(&self.counter) > 1 {              Label.check      armed e → done | awaiting e
          notified.as_mut().await;                              Label.wake       awaiting e → rearming   (enabled iff epoch ≠ e)
          notified.set(self.notify.notified());                 Label.rearm      rearming → armed epoch
      }
  dropping the `wait_guards` future (cancellation / completion) Label.cancel     any → idle

  `Arc::strong_count(&self.counter) - 1` = number of guards that have not executed
  `self.counter.take()` yet = `holders s`.

  tokio `Notify` (the ASSUMPTION, transcribed from tokio 1.49 `sync/notify.rs`): `notified()`
  snapshots the number of `notify_waiters` calls made so far (`epoch`); the returned future
  completes exactly when that number has changed since the snapshot (either found at poll time
  in `State::Init`/`Waiting`, or because `notify_waiters` removed it from the wait list, which
  also bumps the number).  `notify_one` permits are never used by `Counter`.

  Any number of guards, any interleaving: an interleaving is any list of labels for which
  `run` is defined.  The deliberately wrong variant `stepBad` (notify BEFORE releasing the
  count) is the negative control used by `Props/C41.lean`.

  Import-free (the driver links against this file).
-/
namespace Lumina.Model.Counter

/-- life cycle of one `CounterGuard` -/
inductive G where
  /-- holds its clone of the `Arc` (the blocking task is still running / not dropped yet) -/
  | alive
  /-- `self.counter.take()` done, `notify_waiters()` not yet -/
  | dec
  /-- drop finished -/
  | notified
  /-- ONLY in the wrong variant `stepBad`: `notify_waiters()` already called, `Arc` still held -/
  | early
  deriving DecidableEq, Repr, Inhabited

/-- program counter of the (single, `&mut self`) `wait_guards` future -/
inductive W where
  | idle
  | start
  | armed (e : Nat)
  | awaiting (e : Nat)
  | rearming
  | done
  deriving DecidableEq, Repr, Inhabited

structure State where
  guards : List G
  /-- number of `notify_waiters` calls so far -/
  epoch : Nat
  waiter : W
  deriving DecidableEq, Repr, Inhabited

inductive Label where
  | newGuard
  | decr (i : Nat)
  | notify (i : Nat)
  | call
  | arm
  | check
  | wake
  | rearm
  | cancel
  deriving DecidableEq, Repr, Inhabited

def init : State := { guards := [], epoch := 0, waiter := .idle }

/-- `Arc::strong_count(&self.counter) - 1`: guards that still hold their clone of the `Arc` -/
def holders (s : State) : Nat := s.guards.count .alive + s.guards.count .early

def step (s : State) : Label → Option State
  | .newGuard =>
    if s.waiter = .idle then some { s with guards := s.guards ++ [.alive] } else none
  | .decr i =>
    if s.guards[i]? = some .alive then some { s with guards := s.guards.set i .dec } else none
  | .notify i =>
    if s.guards[i]? = some .dec then
      some { s with guards := s.guards.set i .notified, epoch := s.epoch + 1 }
    else none
  | .call => if s.waiter = .idle then some { s with waiter := .start } else none
  | .arm => if s.waiter = .start then some { s with waiter := .armed s.epoch } else none
  | .check =>
    match s.waiter with
    | .armed e =>
      if holders s = 0 then some { s with waiter := .done } else some { s with waiter := .awaiting e }
    | _ => none
  | .wake =>
    match s.waiter with
    | .awaiting e => if s.epoch ≠ e then some { s with waiter := .rearming } else none
    | _ => none
  | .rearm => if s.waiter = .rearming then some { s with waiter := .armed s.epoch } else none
  | .cancel => some { s with waiter := .idle }

/-- the negative control: `CounterGuard::drop` with its two statements swapped
    (`notify_waiters()` first, `counter.take()` second); the waiter is unchanged -/
def stepBad (s : State) : Label → Option State
  | .notify i =>
    if s.guards[i]? = some .alive then
      some { s with guards := s.guards.set i .early, epoch := s.epoch + 1 }
    else none
  | .decr i =>
    if s.guards[i]? = some .early then some { s with guards := s.guards.set i .notified } else none
  | l => step s l

/-- the same transition system with the `Notify` semantics as a PARAMETER: `ready epoch e` says
    whether a `Notified` created when `e` calls of `notify_waiters` had been made is complete
    when `epoch` calls have been made.  `step` is `stepN` at tokio's documented semantics
    `tokioReady` (`Proofs/Counter.lean: stepN_tokio`). -/
def stepN (ready : Nat → Nat → Bool) (s : State) : Label → Option State
  | .wake =>
    match s.waiter with
    | .awaiting e => if ready s.epoch e then some { s with waiter := .rearming } else none
    | _ => none
  | l => step s l

/-- tokio 1.49 `Notify`: complete iff `notify_waiters` has been called since the creation -/
def tokioReady (epoch e : Nat) : Bool := epoch != e

/-- a `Notify` that loses one notification (negative control for the hypothesis) -/
def lossyReady (epoch e : Nat) : Bool := decide (e + 1 < epoch)

/-- negative control for the ORDER inside `wait_guards`: the `Notified` is created only AFTER
    the count check (`while strong_count > 1 { let n = notify.notified(); n.await }`).
    Program points reused: `start` = about to check the count, `rearming` = count seen > 1,
    about to create the `Notified`, `awaiting e` = awaiting the `Notified` created at epoch e. -/
def stepLate (s : State) : Label → Option State
  | .check =>
    match s.waiter with
    | .start => if holders s = 0 then some { s with waiter := .done } else some { s with waiter := .rearming }
    | _ => none
  | .arm => none
  | .rearm => if s.waiter = .rearming then some { s with waiter := .awaiting s.epoch } else none
  | .wake =>
    match s.waiter with
    | .awaiting e => if s.epoch ≠ e then some { s with waiter := .start } else none
    | _ => none
  | l => step s l

/-- run an interleaving (a list of labels); `none` if some step is not enabled -/
def runWith (st : State → Label → Option State) (s : State) : List Label → Option State
  | [] => some s
  | l :: ls => match st s l with
    | some s' => runWith st s' ls
    | none => none

def run := runWith step
def runBad := runWith stepBad
def runLate := runWith stepLate
def runN (ready : Nat → Nat → Bool) := runWith (stepN ready)

/-- labels of the waiter's own code (one of them at most is enabled in any state) -/
def Label.isWaiter : Label → Bool
  | .arm | .check | .wake | .rearm => true
  | _ => false

/-- labels of the environment that the termination argument does not count:
    creating more guards and dropping the future -/
def Label.isExternal : Label → Bool
  | .newGuard | .cancel => true
  | _ => false

/-- the waiter label enabled in `s`, if any (what one more step of polling the future does) -/
def waiterLabel (s : State) : Option Label :=
  match s.waiter with
  | .start => some .arm
  | .armed _ => some .check
  | .awaiting e => if s.epoch ≠ e then some .wake else none
  | .rearming => some .rearm
  | _ => none

/-- one `Future::poll` of `wait_guards`: the waiter runs until it blocks or finishes.
    Fuel: each loop iteration consumes at least one epoch increment. -/
def pollFuel (fuel : Nat) (s : State) : State :=
  match fuel with
  | 0 => s
  | fuel + 1 =>
    match waiterLabel s with
    | some l => match step s l with
      | some s' => pollFuel fuel s'
      | none => s
    | none => s

def poll (s : State) : State := pollFuel 8 s

/-- guards still to call `notify_waiters` -/
def pendingNotifies (s : State) : Nat := s.guards.count .alive + s.guards.count .dec

/-- termination variant (see `Props/C41.lean`): strictly decreases with every step other than
    `newGuard`/`cancel` -/
def variant (s : State) : Nat :=
  let k := pendingNotifies s
  let gpart := 2 * s.guards.count .alive + s.guards.count .dec
  let wpart := match s.waiter with
    | .idle => 3 * k + 3
    | .start => 3 * k + 2
    | .armed e => 3 * (k + (if s.epoch ≠ e then 1 else 0)) + 1
    | .awaiting e => 3 * (k + (if s.epoch ≠ e then 1 else 0))
    | .rearming => 3 * k + 2
    | .done => 0
  gpart + wpart

/-! ## Sequential histories (what the harness drives by hand on one thread)

  One harness op = a short fixed sequence of model steps.  `poll` is one `Future::poll`. -/

inductive SeqOp where
  | guard
  | drop (i : Nat)
  | dec (i : Nat)
  | notify (i : Nat)
  | wait
  | poll
  | cancel
  deriving DecidableEq, Repr

inductive SeqOut where
  | ok
  /-- `guard` while a `wait_guards` future mutably borrows the counter -/
  | borrowed
  | noguard
  | busy
  | nofuture
  | finished
  | ready
  | pending
  deriving DecidableEq, Repr

/-- the task waker has been invoked: the registered `Notified` was completed by a `notify_waiters` -/
def woken (s : State) : Bool :=
  match s.waiter with
  | .awaiting e => s.epoch != e
  | _ => false

def seqStep (s : State) : SeqOp → State × SeqOut
  | .guard => match step s .newGuard with
    | some s' => (s', .ok)
    | none => (s, .borrowed)
  | .drop i => match step s (.decr i) with
    | some s1 => match step s1 (.notify i) with
      | some s2 => (s2, .ok)
      | none => (s, .noguard)
    | none => (s, .noguard)
  | .dec i => match step s (.decr i) with
    | some s' => (s', .ok)
    | none => (s, .noguard)
  | .notify i => match step s (.notify i) with
    | some s' => (s', .ok)
    | none => (s, .noguard)
  | .wait => match step s .call with
    | some s' => (s', .ok)
    | none => (s, .busy)
  | .poll =>
    match s.waiter with
    | .idle => (s, .nofuture)
    | .done => (s, .finished)
    | _ =>
      let s' := poll s
      (s', if s'.waiter = .done then .ready else .pending)
  | .cancel => ({ s with waiter := .idle }, .ok)

/-! ## Concurrent traces: is an observed trace of visible events a run of the model?

  Visible events bracket the hidden model steps: `decr i`/`notify i` happen between `dropBegin i`
  and `dropEnd i` (`dropEnd` may be unobservable); the waiter's steps happen between `pollBegin`
  and the matching `pollPending`/`pollReady`.  Acceptance = subset simulation over the hidden steps. -/

inductive Vis where
  | call
  | pollBegin
  | pollPending
  | pollReady
  | dropBegin (i : Nat)
  | dropEnd (i : Nat)
  deriving DecidableEq, Repr

structure TS where
  m : State
  begun : List Nat
  inPoll : Bool
  deriving DecidableEq, Repr

/-- hidden steps enabled in a trace state -/
def hiddenSucc (t : TS) : List TS :=
  let gs := t.begun.flatMap (fun i =>
    ((step t.m (.decr i)).toList ++ (step t.m (.notify i)).toList).map (fun m' => { t with m := m' }))
  let ws := if t.inPoll then
      match waiterLabel t.m with
      | some l => (step t.m l).toList.map (fun m' => { t with m := m' })
      | none => []
    else []
  gs ++ ws

def visStep (t : TS) : Vis → Option TS
  | .call => (step t.m .call).map (fun m' => { t with m := m' })
  | .pollBegin =>
    if t.inPoll then none
    else match t.m.waiter with
      | .idle => none
      | .done => none
      | _ => some { t with inPoll := true }
  | .pollPending =>
    if t.inPoll then
      match t.m.waiter with
      | .awaiting _ => some { t with inPoll := false }
      | _ => none
    else none
  | .pollReady =>
    if t.inPoll && t.m.waiter = .done then some { t with inPoll := false } else none
  | .dropBegin i =>
    if t.begun.contains i || t.m.guards[i]? != some .alive then none
    else some { t with begun := i :: t.begun }
  | .dropEnd i =>
    if t.begun.contains i && t.m.guards[i]? = some .notified then some t else none

def insertAll (acc : List TS) : List TS → List TS × List TS
  | [] => (acc, [])
  | x :: xs =>
    if acc.contains x then insertAll acc xs
    else
      let (acc', fresh) := insertAll (x :: acc) xs
      (acc', x :: fresh)

/-- closure of a set of trace states under hidden steps (fuel = bound on rounds) -/
def closure (fuel : Nat) (acc frontier : List TS) : List TS :=
  match fuel with
  | 0 => acc
  | fuel + 1 =>
    if frontier.isEmpty then acc
    else
      let (acc', fresh) := insertAll acc (frontier.flatMap hiddenSucc)
      closure fuel acc' fresh

def closeSet (ts : List TS) : List TS :=
  let (acc, fresh) := insertAll [] ts
  closure 64 acc fresh

def accStates (n : Nat) : List Vis → List TS → List TS
  | [], cur => cur
  | v :: vs, cur => accStates n vs (closeSet (cur.filterMap (fun t => visStep t v)))

def traceInit (n : Nat) : TS :=
  { m := { guards := List.replicate n .alive, epoch := 0, waiter := .idle }, begun := [], inPoll := false }

/-- states the model can be in after exhibiting the visible trace `tr` (empty = not a run) -/
def traceStates (n : Nat) (tr : List Vis) : List TS := accStates n tr (closeSet [traceInit n])

/-- from a state in which every guard's drop has begun, let every hidden step run (guards
    finish, waiter polled whenever woken): does the wait return? -/
def finishGuards (s : State) : State :=
  let rec go (s : State) : List Nat → State
    | [] => s
    | i :: is =>
      let s1 := (step s (.decr i)).getD s
      let s2 := (step s1 (.notify i)).getD s1
      go s2 is
  go s (List.range s.guards.length)

def eventuallyReturns (t : TS) : Bool :=
  (poll (finishGuards t.m)).waiter = .done

end Lumina.Model.Counter

/-
  C16 — every decoder of peer-supplied bytes, from its post-`prost` raw structure onward, with a
  three-valued outcome `ok | err | panic site` and debug-build semantics (overflow checks on,
  slice indexing checked).

    Rust                                                             Lean
    ---------------------------------------------------------------  ---------------------------------
    types/src/nmt/namespace_proof.rs  TryFrom<RawProof>               proofFromRaw  (= Nmt.NsProof.ofRaw)
                                      total_leaves (before the fix)   totalLeavesUnfixed
                                      total_leaves                    totalLeaves
                                      validate_shape                  validateShape
                                      verify_range (wrapper)          safeVerifyRange
                                      verify_complete_namespace (wr.) safeVerifyCompleteNamespace
    types/src/sample.rs               Sample::from_raw / verify       sampleFromRaw(Unfixed) / sampleVerify(Unfixed)
    types/src/row.rs                  Row::from_raw / verify          rowFromRaw(Unfixed) / rowVerify
    types/src/row_namespace_data.rs   from_raw / verify               rndFromRaw / rndVerify(Unfixed)
    types/src/namespace_data.rs       from_raw / verify               ndFromRaw / ndVerify(Unfixed)
    types/src/byzantine.rs            TryFrom<RawBadEncoding…>        befpFromRaw
                                      FraudProof::validate            befpValidate (current) / befpValidateNmtFixed / befpValidateUnfixed
    leopard-codec 0.2.0 src/lib.rs    encode / reconstruct (guards)   leoEncode / leoReconstruct, ceilPow2
    node/src/p2p/header_ex.rs         parse_header_request/response   hxParseRequest / hxReadResponses
    node/src/p2p/shrex/pool_tracker.rs EdsNotification::deserialize_and_validate   edsNotification
    node/src/p2p/shrex/codec.rs       ExtendedDataSquare::decode_and_verify (guards)  edsResponseGuards
    types/src/extended_header.rs      ExtendedHeader::validate                         HeaderVerify.validate (group E, C01)

  The third-party paths lumina reaches with attacker-controlled values are the transcriptions of
  group D's `Lumina.Model.Nmt` (nmt-rs 0.2.5: `hash_nodes` order panic, `siblings[n-1]` indexing in
  `verify_namespace` / `check_proof_completeness`, the `leaves.len() + start - 1` underflow); `prost`
  (`Lumina.Model.Framing`, group F2) is trusted panic-free.  The Reed–Solomon transforms of leopard
  (`encode_inner`, `reconstruct_inner`) are PARAMETERS (`Codec`): only leopard's entry guards are
  transcribed, its internals are assumed panic-free once the guards have passed.

  `…Unfixed` = the code as it was before the `fix:` commits of this property (kept for the
  `…_counterexample` theorems); the unsuffixed functions are the code as it is now.

  Import-free apart from other import-free models (compiled into the driver).  Owner: group D3.
-/
import Lumina.Model.Sample
import Lumina.Model.Framing

namespace Lumina.Model.Decoders
open Lumina.Util Lumina.Model.Nmt Lumina.Model.Eds

/-! ## outcomes -/

/-- where the Rust code panics -/
inductive Site where
  /-- `1 << siblings.len()` in `NamespaceProof::total_leaves` (debug: shift overflow) -/
  | shl
  /-- leopard-codec: `ceil_pow2(0)` (`x - 1` underflow) or `shards.len() - data_shards` underflow (debug) -/
  | leopard
  /-- inside nmt-rs proof verification: `hash_nodes` order panic, `siblings[n - 1]` out of bounds,
      `leaves.len() + start - 1` underflow -/
  | nmt
  /-- `Namespace::from_raw(..).unwrap()` in `BadEncodingFraudProof::validate` -/
  | befpUnwrap
  /-- `DataAvailabilityHeader::square_width`: `expect("len is bigger than u16::MAX")` -/
  | squareWidth
  /-- a checked slice index `&buf[..len]` -/
  | slice
  deriving DecidableEq, Repr, Inhabited

/-- three-valued outcome of a decoder -/
inductive Out (α : Type) where
  | ok (a : α)
  | err
  | panic (s : Site)
  deriving Repr, Inhabited

def Out.isPanic {α} : Out α → Bool
  | .panic _ => true
  | _ => false

/-- the panic site, if the outcome is a panic -/
def Out.site? {α} : Out α → Option Site
  | .panic s => some s
  | _ => none

def Out.isErr {α} : Out α → Bool
  | .err => true
  | _ => false

def Out.cls {α} : Out α → String
  | .ok _ => "ok"
  | .err => "err"
  | .panic _ => "panic"

@[inline] def Out.bind {α β} (x : Out α) (f : α → Out β) : Out β :=
  match x with
  | .ok a => f a
  | .err => .err
  | .panic s => .panic s

/-- an nmt-rs result: `Err.panic` becomes `panic nmt` -/
def ofNmt {α} : Except Nmt.Err α → Out α
  | .ok a => .ok a
  | .error .panic => .panic .nmt
  | .error _ => .err

/-- a `celestia_types` result modelled by group D (`SErr`) -/
def ofS {α} : Except Sample.SErr α → Out α
  | .ok a => .ok a
  | .error e => if e.isPanic then .panic .nmt else .err

/-- `iter.map(f).collect::<Result<Vec<_>>>()`: first non-ok outcome wins -/
def collectOut {α β} (f : α → Out β) : List α → Out (List β)
  | [] => .ok []
  | x :: xs =>
    match f x with
    | .err => .err
    | .panic s => .panic s
    | .ok y =>
      match collectOut f xs with
      | .ok ys => .ok (y :: ys)
      | .err => .err
      | .panic s => .panic s

/-! ## `NamespaceProof` (types/src/nmt/namespace_proof.rs) -/

/-- wire form of `proof.pb.Proof`: `start`/`end` as the u64 bit pattern of the i64 field -/
structure RawProof where
  start : Nat
  end_ : Nat
  nodes : List Bytes
  leafHash : Bytes
  ign : Bool
  deriving Repr, Inhabited, DecidableEq

/-- `TryFrom<RawProof> for NamespaceProof` -/
def proofFromRaw (p : RawProof) : Out NsProof :=
  match NsProof.ofRaw p.start p.end_ p.nodes p.leafHash p.ign with
  | some q => .ok q
  | none => .err

/-- `total_leaves` BEFORE the fix: `Some(1 << siblings.len())`, shift overflow in debug builds -/
def totalLeavesUnfixed (p : NsProof) : Out (Option Nat) :=
  if p.end_ - p.start = 1 then
    if p.siblings.length ≥ 64 then .panic .shl else .ok (some (2 ^ p.siblings.length))
  else .ok none

/-- `total_leaves`: `u32::try_from(len).ok().and_then(|n| 1usize.checked_shl(n))` -/
def totalLeaves (p : NsProof) : Option Nat :=
  if p.end_ - p.start = 1 then
    if p.siblings.length < 64 then some (2 ^ p.siblings.length) else none
  else none

/-- consecutive nodes are in namespace order: `w[0].max_namespace() <= w[1].min_namespace()` -/
def siblingsOrdered : List NsHash → Bool
  | [] => true
  | [_] => true
  | a :: b :: rest => leB a.maxNs b.minNs && siblingsOrdered (b :: rest)

/-- `NamespaceProof::validate_shape(first_ns, last_ns)`: `true` = `Ok(())`.  Checks, in this order:
    enough siblings for the start index; every sibling `min <= max`; consecutive siblings ordered;
    rightmost left sibling `.max <= first_ns`; `last_ns <=` leftmost right sibling `.min`. -/
def validateShape (p : NsProof) (firstNs lastNs : Bytes) : Bool :=
  let numLeft := computeNumLeftSiblings p.start
  if numLeft > p.siblings.length then false
  else if p.siblings.any (fun s => ltB s.maxNs s.minNs) then false
  else if !siblingsOrdered p.siblings then false
  else
    let leftOk : Bool :=
      if numLeft ≠ 0 then
        match p.siblings[numLeft - 1]? with
        | some l => leB l.maxNs firstNs
        | none => true
      else true
    let rightOk : Bool :=
      match p.siblings[numLeft]? with
      | some r => leB lastNs r.minNs
      | none => true
    leftOk && rightOk

/-- `NamespaceProof::verify_range` of lumina (shadows the nmt-rs method reached through `Deref`) -/
def safeVerifyRange (H : HashFn) (p : NsProof) (root : NsHash) (rawLeaves : List Bytes) (ns : Bytes) :
    Except Nmt.Err Unit :=
  if !validateShape p ns ns then .error .malformedProof
  else verifyRange H p root rawLeaves ns

/-- the shape check of lumina's `verify_complete_namespace`: an absence proof is validated against the
    namespace range of its leaf (which must itself be well formed), any other proof against `ns` -/
def completeNsShapeOk (p : NsProof) (ns : Bytes) : Bool :=
  match (if p.isAbsence then p.leaf else none) with
  | some leaf => if ltB leaf.maxNs leaf.minNs then false else validateShape p leaf.minNs leaf.maxNs
  | none => validateShape p ns ns

/-- `NamespaceProof::verify_complete_namespace` of lumina -/
def safeVerifyCompleteNamespace (H : HashFn) (p : NsProof) (root : NsHash) (rawLeaves : List Bytes) (ns : Bytes) :
    Except Nmt.Err Unit :=
  if !completeNsShapeOk p ns then .error .malformedProof
  else verifyCompleteNamespace H p root rawLeaves ns

/-! ## `Sample` (types/src/sample.rs) -/

/-- `shwap.Sample` -/
structure RawSample where
  share : Option Bytes
  proof : Option RawProof
  /-- `proof_type: i32` -/
  proofType : Int
  deriving Repr, Inhabited

def axisOfI32 (v : Int) : Option Axis :=
  if v = 0 then some .row else if v = 1 then some .col else none

/-- the part of `Sample::from_raw` after `total_leaves` -/
def sampleFinish (row col : Nat) (ax : Axis) (proof : NsProof) (data : Bytes) (squareSize : Nat) : Out Sample.Sample :=
  let shr := if row < squareSize / 2 ∧ col < squareSize / 2 then Sample.shareFromRaw data else Sample.shareParity data
  match shr with
  | .error _ => .err
  | .ok share => .ok ⟨ax, share, proof⟩

/-- `Sample::from_raw(id, raw)`; `total` is the `total_leaves` in force -/
def sampleFromRawWith (total : NsProof → Out (Option Nat)) (row col : Nat) (raw : RawSample) : Out Sample.Sample :=
  match raw.proof with
  | none => .err
  | some rp =>
    (proofFromRaw rp).bind fun proof =>
    match axisOfI32 raw.proofType with
    | none => .err
    | some ax =>
      if proof.isAbsence then .err
      else
        match raw.share with
        | none => .err
        | some data =>
          (total proof).bind fun t =>
          match t with
          | none => .err
          | some squareSize => sampleFinish row col ax proof data squareSize

def sampleFromRawUnfixed := sampleFromRawWith totalLeavesUnfixed
def sampleFromRaw := sampleFromRawWith (fun p => .ok (totalLeaves p))

/-- `Sample::verify(id, dah)`; `vr` is the `verify_range` in force -/
def sampleVerifyWith (vr : NsProof → NsHash → List Bytes → Bytes → Except Nmt.Err Unit)
    (s : Sample.Sample) (row col : Nat) (dah : Dah) : Out Unit :=
  match dah.rowRoot? row, dah.colRoot? col with
  | some rowRoot, some colRoot =>
    let sel : NsHash × Nat := match s.proofType with
      | .row => (rowRoot, col)
      | .col => (colRoot, row)
    if s.proof.start ≠ sel.2 then .err
    else ofNmt (vr s.proof sel.1 [s.share.data] s.share.ns)
  | _, _ => .err

def sampleVerifyUnfixed (H : HashFn) := sampleVerifyWith (verifyRange H)
def sampleVerify (H : HashFn) := sampleVerifyWith (safeVerifyRange H)

/-! ## leopard-codec 0.2.0: entry guards of `encode` / `reconstruct` -/

/-- the Reed–Solomon transforms themselves (`encode_inner`, `reconstruct_inner`): parameters -/
structure Codec where
  /-- all shards after `encode_inner(shards, data_shards, shard_size)` -/
  enc : List Bytes → Nat → List Bytes
  /-- all shards after `reconstruct_inner` -/
  recon : List Bytes → Nat → List Bytes

def ceilPow2Aux (x : Nat) : Nat → Nat → Nat
  | 0, p => p
  | fuel + 1, p => if x ≤ p then p else ceilPow2Aux x fuel (2 * p)

/-- `ceil_pow2(x)` = `1 << (64 - (x - 1).leading_zeros())`: smallest power of two `>= x` for `1 <= x`;
    `x = 0` underflows (debug panic) -/
def ceilPow2 (x : Nat) : Out Nat :=
  if x = 0 then .panic .leopard else .ok (ceilPow2Aux x x 1)

/-- `shard_size`: first non-zero length, 0 if none -/
def shardSize (shards : List Bytes) : Nat :=
  match shards.find? (fun s => s.length ≠ 0) with
  | some s => s.length
  | none => 0

/-- `check_shards(shards, allow_zero)`: `none` = error -/
def checkShards (shards : List Bytes) (allowZero : Bool) : Option Nat :=
  let size := shardSize shards
  if size = 0 then (if allowZero then some 0 else none)
  else if shards.all (fun s => (allowZero && s.isEmpty) || s.length == size) then some size
  else none

/-- `is_encode_buf_overflow(data_shards, parity_shards)` -/
def isEncodeBufOverflow (k parity : Nat) : Out Bool :=
  (ceilPow2 parity).bind fun m =>
    let last := k % m
    if m ≥ k ∨ last = 0 then .ok false
    else .ok (decide ((k / m + 1) * m + 1 > 255))

/-- `leopard_codec::encode(shards, data_shards)`: the shards afterwards -/
def leoEncode (c : Codec) (shards : List Bytes) (k : Nat) : Out (List Bytes) :=
  if shards.length > 256 then .err
  else if shards.length < k then .panic .leopard
  else
    let parity := shards.length - k
    if parity > k then .err
    else
      (isEncodeBufOverflow k parity).bind fun ov =>
        if ov then .err
        else
          match checkShards shards false with
          | none => .err
          | some size => if size % 64 ≠ 0 then .err else .ok (c.enc shards k)

/-- `leopard_codec::reconstruct(shards, data_shards)` -/
def leoReconstruct (c : Codec) (shards : List Bytes) (k : Nat) : Out (List Bytes) :=
  if shards.length > 256 then .err
  else if shards.length < k then .panic .leopard
  else
    let parity := shards.length - k
    if parity > k then .err
    else
      match checkShards shards true with
      | none => .err
      | some size =>
        let present := (shards.filter (fun s => !s.isEmpty)).length
        if present = shards.length then .ok shards
        else if present < k then .err
        else if size % 64 ≠ 0 then .err
        else .ok (c.recon shards k)

/-! ## `Row` (types/src/row.rs) -/

/-- `shwap.Row`: `half_side` is an open `i32` enumeration (`LEFT = 0`, `RIGHT = 1`) -/
structure RawRow where
  halves : List Bytes
  side : Int
  deriving Repr, Inhabited

/-- `Row { shares }` -/
abbrev Row := List Share

/-- the `.enumerate().map(..)` of `Row::from_raw` -/
def rowShares (rowIdx k : Nat) (shares : List Bytes) : Out Row :=
  collectOut (fun (p : Nat × Bytes) =>
      match (if rowIdx < k ∧ p.1 < k then Sample.shareFromRaw p.2 else Sample.shareParity p.2) with
      | .ok s => Out.ok s
      | .error _ => Out.err)
    ((List.range shares.length).zip shares)

/-- `Row::from_raw(id, raw)` after `rejectEmpty` (the fix: an empty half is a validation error) -/
def rowFromRawWith (rejectEmpty : Bool) (c : Codec) (rowIdx : Nat) (raw : RawRow) : Out Row :=
  let k := raw.halves.length
  if rejectEmpty && k == 0 then .err
  else
    let shares : Out (List Bytes) :=
      if raw.side = 1 then
        leoReconstruct c (List.replicate k [] ++ raw.halves) k
      else
        -- `half_side()` maps every unknown value to the default, `Left`
        leoEncode c (raw.halves ++ List.replicate k (List.replicate SHARE_SIZE 0)) k
    shares.bind (rowShares rowIdx k)

def rowFromRawUnfixed := rowFromRawWith false
def rowFromRaw := rowFromRawWith true

/-- `Row::verify(id, dah)` -/
def rowVerify (H : HashFn) (r : Row) (rowIdx : Nat) (dah : Dah) : Out Unit :=
  match pushLeaves H (r.map Share.leaf) with
  | none => .err
  | some hs =>
    match dah.rowRoot? rowIdx with
    | none => .err
    | some root =>
      (ofNmt (computeRoot H true hs)).bind fun computed =>
        if computed.hash ≠ root.hash then .err else .ok ()

/-! ## `RowNamespaceData`, `NamespaceData` -/

/-- `shwap.RowNamespaceData` -/
structure RawRnd where
  shares : List Bytes
  proof : Option RawProof
  deriving Repr, Inhabited

structure Rnd where
  proof : NsProof
  shares : List Share
  deriving Repr, Inhabited

/-- `RowNamespaceData::from_raw(id, raw)`; `ns` = `id.namespace` (a valid namespace) -/
def rndFromRaw (ns : Bytes) (raw : RawRnd) : Out Rnd :=
  match raw.proof with
  | none => .err
  | some rp =>
    (collectOut (fun d =>
        match (if ns ≠ parityNs then Sample.shareFromRaw d else Sample.shareParity d) with
        | .ok s => Out.ok s
        | .error _ => Out.err) raw.shares).bind fun shares =>
      if !shares.all (fun s => s.ns == ns) then .err
      else (proofFromRaw rp).bind fun proof => .ok ⟨proof, shares⟩

/-- `RowNamespaceData::verify(id, dah)` -/
def rndVerifyWith (vc : NsProof → NsHash → List Bytes → Bytes → Except Nmt.Err Unit)
    (d : Rnd) (ns : Bytes) (row : Nat) (dah : Dah) : Out Unit :=
  if (d.shares.isEmpty && !d.proof.isAbsence) || (!d.shares.isEmpty && d.proof.isAbsence) then .err
  else
    match dah.rowRoot? row with
    | none => .err
    | some root => ofNmt (vc d.proof root (d.shares.map Share.data) ns)

def rndVerifyUnfixed (H : HashFn) := rndVerifyWith (verifyCompleteNamespace H)
def rndVerify (H : HashFn) := rndVerifyWith (safeVerifyCompleteNamespace H)

def U16_MAX : Nat := 65535

/-- `NamespaceData::from_raw(id, rows)` -/
def ndFromRaw (ns : Bytes) (rows : List RawRnd) : Out (List Rnd) :=
  if rows.length > U16_MAX then .err
  else collectOut (rndFromRaw ns) rows

/-- `DataAvailabilityHeader::square_width` -/
def dahSquareWidth (dah : Dah) : Out Nat :=
  if dah.rowRoots.length > U16_MAX then .panic .squareWidth else .ok dah.rowRoots.length

def verifyRows (f : Rnd → Nat → Out Unit) : List Rnd → List Nat → Out Unit
  | r :: rs, i :: is => (f r i).bind fun _ => verifyRows f rs is
  | _, _ => .ok ()

/-- `NamespaceData::verify(id, dah)` -/
def ndVerifyWith (H : HashFn) (vc : NsProof → NsHash → List Bytes → Bytes → Except Nmt.Err Unit)
    (rows : List Rnd) (ns : Bytes) (dah : Dah) : Out Unit :=
  if rows.length > U16_MAX then .err
  else
    (dahSquareWidth dah).bind fun w =>
      let idxs := (List.range w).filter (fun r => (dah.rowContains? H r ns).getD false)
      if idxs.length ≠ rows.length then .err
      else verifyRows (fun r i => rndVerifyWith vc r ns i dah) rows idxs

def ndVerifyUnfixed (H : HashFn) := ndVerifyWith H (verifyCompleteNamespace H)
def ndVerify (H : HashFn) := ndVerifyWith H (safeVerifyCompleteNamespace H)

/-! ## `BadEncodingFraudProof` (types/src/byzantine.rs) -/

/-- `share.eds.byzantine.pb.Share` -/
structure RawBefpShare where
  data : Bytes
  proof : Option RawProof
  proofAxis : Int
  deriving Repr, Inhabited

/-- `share.eds.byzantine.pb.BadEncoding` -/
structure RawBefp where
  headerHash : Bytes
  height : Nat
  shares : List RawBefpShare
  index : Nat
  axis : Int
  deriving Repr, Inhabited

/-- `ShareWithProof { leaf: NmtLeaf { namespace, share }, proof, proof_axis }` -/
structure ShareWithProof where
  ns : Bytes
  share : Bytes
  proof : NsProof
  proofAxis : Axis
  deriving Repr, Inhabited

structure Befp where
  height : Nat
  shares : List (Option ShareWithProof)
  index : Nat
  axis : Axis
  deriving Repr, Inhabited

def NMT_LEAF_SIZE : Nat := SHARE_SIZE + NS_SIZE
def I64_MAX : Nat := 9223372036854775807

/-- `TryFrom<RawShareWithProof> for ShareWithProof` -/
def shareWithProofFromRaw (s : RawBefpShare) (rp : RawProof) : Out ShareWithProof :=
  if s.data.length ≠ NMT_LEAF_SIZE then .err
  else
    match Namespace.fromRaw (s.data.take NS_SIZE) with
    | .error _ => .err
    | .ok ns =>
      (proofFromRaw rp).bind fun proof =>
        if proof.isAbsence then .err
        else
          match axisOfI32 s.proofAxis with
          | none => .err
          | some pa => .ok ⟨ns, s.data.drop NS_SIZE, proof, pa⟩

/-- one entry of `shares`: `if share.proof.is_some() { share.try_into().map(Some) } else { Ok(None) }` -/
def befpShareFromRaw (s : RawBefpShare) : Out (Option ShareWithProof) :=
  match s.proof with
  | some rp => (shareWithProofFromRaw s rp).bind fun x => Out.ok (some x)
  | none => Out.ok none

/-- `TryFrom<RawBadEncodingFraudProof> for BadEncodingFraudProof` -/
def befpFromRaw (raw : RawBefp) : Out Befp :=
  match axisOfI32 raw.axis with
  | none => .err
  | some axis =>
    if raw.index > U16_MAX then .err
    else
      (collectOut befpShareFromRaw raw.shares).bind fun shares =>
        if raw.height > I64_MAX then .err            -- `Height::try_from(u64)`
        else if raw.headerHash.length ≠ 0 ∧ raw.headerHash.length ≠ 32 then .err   -- `Hash::try_from(Vec<u8>)`
        else .ok ⟨raw.height, shares, raw.index, axis⟩

/-- the per-share proof loop of `validate`.  `bindPos` (fix eb5a49a): the proof must be for the leaf at the
    share's own position in the tree it is checked against. -/
def befpVerifyShares (vr : NsProof → NsHash → List Bytes → Bytes → Except Nmt.Err Unit) (bindPos : Bool)
    (dah : Dah) (axis : Axis) (index : Nat) : List (Option ShareWithProof) → Nat → Out Unit
  | [], _ => .ok ()
  | none :: rest, i => befpVerifyShares vr bindPos dah axis index rest (i + 1)
  | some s :: rest, i =>
    let sel : Option NsHash × Nat :=
      match axis, s.proofAxis with
      | .row, .row => (dah.rowRoot? index, i)
      | .row, .col => (dah.colRoot? (i % 65536), index)
      | .col, .row => (dah.rowRoot? (i % 65536), index)
      | .col, .col => (dah.colRoot? index, i)
    match sel.1 with
    | none => .panic .slice          -- the `.unwrap()`s "safe because we validated that index is in range"
    | some root =>
      if bindPos && s.proof.start != sel.2 then .err
      else
        (ofNmt (vr s.proof root [s.share] s.ns)).bind fun _ =>
          befpVerifyShares vr bindPos dah axis index rest (i + 1)

/-- namespace of the `n`-th rebuilt leaf: `Namespace::from_raw(&share[..NS_SIZE])` for the first `k` leaves of an
    axis that lies in the original data square (`inOds`; before fix 0ccaf23: of every axis), `PARITY_SHARE` for
    the rest.  `unwrapFixed = false`: `.unwrap()`; `true`: `ok none` = "befp is legit". -/
def befpLeafNs (unwrapFixed inOds : Bool) (k n : Nat) (sh : Bytes) : Out (Option Bytes) :=
  if inOds = true ∧ n < k then
    if sh.length < NS_SIZE then .panic .slice
    else
      match Namespace.fromRaw (sh.take NS_SIZE) with
      | .ok ns => .ok (some ns)
      | .error _ => if unwrapFixed then .ok none else .panic .befpUnwrap
  else .ok (some parityNs)

/-- the rebuild loop `for (n, share) in rebuilt_shares.iter().enumerate()`: namespace of the leaf, then
    `nmt.push_leaf` with its order check against `hi` (= `highest_ns`).  `ok none` = an early
    `return Ok(())` ("befp is legit"), `ok (some hs)` = the leaf hashes of the rebuilt tree. -/
def befpRebuild (unwrapFixed inOds : Bool) (H : HashFn) (k : Nat) : List Bytes → Nat → Bytes → Out (Option (List NsHash))
  | [], _, _ => .ok (some [])
  | sh :: rest, n, hi =>
    match befpLeafNs unwrapFixed inOds k n sh with
    | .panic s => .panic s
    | .err => .err
    | .ok none => .ok none
    | .ok (some ns) =>
      if ltB ns hi then .ok none          -- push_leaf refused: "we couldn't rebuild the nmt"
      else
        match befpRebuild unwrapFixed inOds H k rest (n + 1) ns with
        | .panic s => .panic s
        | .err => .err
        | .ok none => .ok none
        | .ok (some hs) => .ok (some (hashLeaf H ns sh :: hs))

/-- `leopard_codec::ORDER` -/
def LEOPARD_ORDER : Nat := 256

/-- `validate` up to the reconstruction: `ok (rebuilt_shares, ods_width)`.  `capGuard` (fix 93ec7dd): squares
    wider than the codec supports are rejected. -/
def befpPrefix (vr : NsProof → NsHash → List Bytes → Bytes → Except Nmt.Err Unit) (bindPos capGuard : Bool)
    (p : Befp) (hh : Nat) (dah : Dah) : Out (List Bytes × Nat) :=
  if hh ≠ p.height then .err
  else if dah.rowRoots.length ≠ dah.colRoots.length then .err
  else
    (dahSquareWidth dah).bind fun w =>
      let k := w / 2
      if p.index ≥ w then .err
      else if p.shares.length ≠ w then .err
      else if (p.shares.filter Option.isSome).length < k then .err
      else if capGuard && decide (w > LEOPARD_ORDER) then .err
      else
        (befpVerifyShares vr bindPos dah p.axis p.index p.shares 0).bind fun _ =>
          .ok (p.shares.map (fun o => match o with | some s => s.share | none => []), k)

/-- `validate` from the reconstruction on -/
def befpSuffix (unwrapFixed : Bool) (H : HashFn) (c : Codec) (p : Befp) (dah : Dah) (rebuilt : List Bytes) (k : Nat) :
    Out Unit :=
  -- `axis_in_ods` (fix 0ccaf23, same commit as the unwrap): before it every axis was treated as an ODS axis
  let inOds : Bool := if unwrapFixed then decide (p.index < k) else true
  match leoReconstruct c rebuilt k with
  | .panic s => .panic s
  | .err => .ok ()                -- "befp is legit"
  | .ok rec =>
    match leoEncode c rec k with
    | .panic s => .panic s
    | .err => .ok ()
    | .ok full =>
      (befpRebuild unwrapFixed inOds H k full 0 (List.replicate NS_SIZE 0)).bind fun hs? =>
        match hs? with
        | none => .ok ()          -- "befp is legit"
        | some hs =>
          let expected? := match p.axis with
            | .row => dah.rowRoot? p.index
            | .col => dah.colRoot? p.index
          match expected? with
          | none => .panic .slice
          | some expected =>
            (ofNmt (computeRoot H true hs)).bind fun root =>
              if root == expected then .err else .ok ()

/-- `FraudProof::validate(header)` for `BadEncodingFraudProof`; `hh` = `header.height()`, `dah` = `header.dah`.
    Flags = which of group D2's three fixes of byzantine.rs are in: `nsFixed` (0ccaf23: no unwrap, parity
    namespace for lower/right axes), `bindPos` (eb5a49a), `capGuard` (93ec7dd). -/
def befpValidateWith (nsFixed bindPos capGuard : Bool) (H : HashFn)
    (vr : NsProof → NsHash → List Bytes → Bytes → Except Nmt.Err Unit) (c : Codec)
    (p : Befp) (hh : Nat) (dah : Dah) : Out Unit :=
  (befpPrefix vr bindPos capGuard p hh dah).bind fun rk => befpSuffix nsFixed H c p dah rk.1 rk.2

/-- the code at the start of this work -/
def befpValidateUnfixed (H : HashFn) := befpValidateWith false false false H (verifyRange H)
/-- nmt wrappers fixed (07cb5f3), byzantine.rs still as it was: the `unwrap` in place -/
def befpValidateNmtFixed (H : HashFn) := befpValidateWith false false false H (safeVerifyRange H)
/-- the code as it is now -/
def befpValidate (H : HashFn) := befpValidateWith true true true H (safeVerifyRange H)

/-! ## header-ex framing (node/src/p2p/header_ex.rs) -/

/-- `parse_header_request` / `parse_header_response`: `&rest[..len]` is a checked slice -/
def hxParseFrame {α} (dec : Bytes → Option α) (buf : Bytes) : Out (Option (α × Bytes)) :=
  match Framing.parseDelimiter buf with
  | none => .ok none
  | some (len, rest) =>
    if rest.length < len then .ok none
    else if len > rest.length then .panic .slice
    else
      match dec (rest.take len) with
      | none => .ok none
      | some m => .ok (some (m, rest.drop len))

/-- `read_request` after `read_up_to` -/
def hxParseRequest (buf : Bytes) : Out Framing.HeaderRequest :=
  (hxParseFrame Framing.decodeRequest buf).bind fun r =>
    match r with
    | none => .err
    | some (m, _) => .ok m

def hxParseFrames {α} (dec : Bytes → Option α) : Nat → Bytes → Out (List α)
  | 0, _ => .ok []
  | fuel + 1, buf =>
    (hxParseFrame dec buf).bind fun r =>
      match r with
      | none => .ok []
      | some (m, rest) => (hxParseFrames dec fuel rest).bind fun ms => .ok (m :: ms)

/-- `read_response` after `read_up_to` -/
def hxReadResponses (buf : Bytes) : Out (List Framing.HeaderResponse) :=
  (hxParseFrames Framing.decodeResponse buf.length buf).bind fun ms =>
    if ms.isEmpty then .err else .ok ms

/-! ## shrex -/

/-- sha256 of the DAH of the empty block's square (`EMPTY_EDS_DATA_HASH`), as a parameter of the check -/
def edsNotification (emptyHash : Bytes) (height : Nat) (dataHash : Bytes) : Out (Nat × Bytes) :=
  if height = 0 then .err
  else if dataHash.all (fun b => b == 0) then .err
  else if dataHash.length ≠ 32 then .err
  else if dataHash = emptyHash then .err
  else .ok (height, dataHash)

def isqrtAux (n : Nat) : Nat → Nat → Nat
  | 0, r => r
  | fuel + 1, r => if (r + 1) * (r + 1) ≤ n then isqrtAux n fuel (r + 1) else r

/-- `f64::sqrt(n as f64) as usize` for the sizes that fit in memory (exact below 2^52) -/
def isqrt (n : Nat) : Nat := isqrtAux n n 0

/-- the guards of `<ExtendedDataSquare as ResponseCodec>::decode_and_verify` and `from_ods` that protect
    leopard from an empty axis: `ok k` = the ODS width with which `leopard_codec::encode(row, k)` is called
    on rows of `2k` shares of `SHARE_SIZE` bytes -/
def edsResponseGuards (rawLen : Nat) : Out Nat :=
  if rawLen = 0 then .err
  else if rawLen % SHARE_SIZE ≠ 0 then .err
  else
    let n := rawLen / SHARE_SIZE
    let k := isqrt n
    if k * k ≠ n then .err else .ok k

/-- the first `leopard_codec::encode` call of `from_ods`, on a row of `k` data shares of `SHARE_SIZE` bytes -/
def edsResponseFirstEncode (c : Codec) (rawLen : Nat) (row : List Bytes) : Out (List Bytes) :=
  (edsResponseGuards rawLen).bind fun k =>
    leoEncode c (row ++ List.replicate k (List.replicate SHARE_SIZE 0)) k

/-! ## ExtendedHeader (types/src/extended_header.rs)

`TryFrom<RawExtendedHeader>` converts the four parts with tendermint's own `TryFrom`s (third party, trusted
panic-free like prost) and then calls `ExtendedHeader::validate`.  The model of `validate` is group E's
`Lumina.Model.HeaderVerify.validate` (C01), which is tied to the real `validate()` field by field by C01's and by
this property's `ehv` ops; its only panic outcome is the debug-build overflow of the voting-power tally in
`verify_commit_light` (`Lumina.Model.Commit`). -/

end Lumina.Model.Decoders

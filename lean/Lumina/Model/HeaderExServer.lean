/-
  Header-ex server (C29): model of `node/src/p2p/header_ex/server.rs`
  (`HeaderExServerHandler::on_request_received`, `parse_request`, `handle_request_current_head`,
  `handle_request_by_height`, `handle_request_by_hash`, `handle_invalid_request`) and of
  `HeaderRequestExt::is_valid` (`header_ex/utils.rs`).

  The store is what the three `Store` getters answer: a list of stored headers
  (height, hash, encoded header).  Import-free.
-/
import Lumina.Model.Framing

namespace Lumina.Model.HeaderExServer
open Lumina.Util
open Lumina.Model.Framing (HeaderRequest ReqData)

structure Stored where
  height : Nat
  hash : Bytes
  /-- `header.encode_vec()` — opaque here -/
  body : Bytes
  deriving DecidableEq, Repr

abbrev Store := List Stored

/-- `store.get_by_height(h)`: `Ok` iff some stored header has that height -/
def getByHeight (s : Store) (h : Nat) : Option Stored := s.find? (fun e => e.height == h)

/-- `store.get_by_hash(hash)` -/
def getByHash (s : Store) (hash : Bytes) : Option Stored := s.find? (fun e => e.hash == hash)

/-- `store.get_head()`: the stored header of greatest height -/
def getHead (s : Store) : Option Stored :=
  s.foldl (fun acc e => match acc with
    | none => some e
    | some a => if e.height > a.height then some e else some a) none

/-- a `HeaderResponse` as the server builds it -/
inductive Resp where
  | ok (body : Bytes)      -- `to_header_response`: status OK, body = encoded header
  | notFound               -- `HeaderResponse::not_found()`
  | invalid                -- `HeaderResponse::invalid()`
  deriving DecidableEq, Repr

inductive Outcome where
  | responses (rs : List Resp)
  | panic                  -- arithmetic overflow in a debug build
  | nothing                -- handler is stopping: the request is dropped
  deriving DecidableEq, Repr

def U64_MAX : Nat := 18446744073709551615
def HASH_SIZE : Nat := 32

/-- `HeaderRequestExt::is_valid` (the `usize::try_from(amount)` check never fails on 64-bit) -/
def isValid (r : HeaderRequest) : Bool :=
  match r.data with
  | .none => false
  | .origin o => if r.amount = 0 then false else if o = 0 ∧ r.amount > 1 then false else true
  | .hash h => if r.amount = 0 then false else if h.length ≠ HASH_SIZE ∨ r.amount > 1 then false else true

/-- the `for i in origin..end` loop of `handle_request_by_height`: stop at the first miss -/
def collect (s : Store) : Nat → Nat → List Resp
  | _, 0 => []
  | i, n + 1 =>
    match getByHeight s i with
    | some e => .ok e.body :: collect s (i + 1) n
    | none => []

/-- `handle_request_by_height`; `maxAmount` = `MAX_HEADERS_AMOUNT_RESPONSE`.
    `checked = true` models the code before the `fix:` commit (`origin + amount` with overflow
    checks: a debug-build panic); `checked = false` the repaired `origin.saturating_add(amount)`. -/
def byHeight (checked : Bool) (maxAmount : Nat) (s : Store) (origin amount : Nat) : Outcome :=
  let amount := min amount maxAmount
  if checked && origin + amount > U64_MAX then .panic
  else
    let stop := min (origin + amount) U64_MAX
    let rs := collect s origin (stop - origin)
    .responses (if rs.isEmpty then [.notFound] else rs)

def respOf : Option Stored → Resp
  | some e => .ok e.body
  | none => .notFound

/-- `on_request_received` + the task it spawns, run to completion -/
def serve (checked : Bool) (maxAmount : Nat) (s : Store) (stopping : Bool) (r : HeaderRequest) : Outcome :=
  if stopping then .nothing
  else if !isValid r then .responses [.invalid]
  else match r.data with
    | .none => .responses [.invalid]                       -- `request.data.map(..)` = None
    | .origin h =>
      if h = 0 then .responses [respOf (getHead s)]
      else byHeight checked maxAmount s h r.amount
    | .hash h =>
      if h.length ≠ HASH_SIZE then .responses [.invalid]   -- `hash.try_into()` fails
      else .responses [respOf (getByHash s h)]

end Lumina.Model.HeaderExServer

/-
  Executable model of `node/src/peer_tracker.rs` (`PeerTracker`): one Lean function per Rust
  method, `&mut self` as a returned state.  Import-free (driver links it).

  Representation
  * `HashMap<PeerId, Peer>`            ↦ `List Peer` (insertion order; keys unique — an invariant
                                          that is PROVED, not assumed; the driver sorts on output)
  * `HashMap<ConnectionId, ConnInfo>`  ↦ `List (Nat × Option Nat)` (connection id, ping in ms)
  * `HashSet<u32>`                     ↦ `List Nat`
  * `HashMap<u32, usize>`              ↦ assoc list `List (Nat × Nat)` (zero entries are kept, as in Rust)
  * `watch::Sender<PeerTrackerInfo>`   ↦ the field `info` (the published value)
  * `disconnected_at: Option<Instant>` ↦ `Option Nat` = whole seconds elapsed since that instant;
    time passes only through the explicit event `advance secs` (the harness moves the instants back).
  * `expect(..)` / debug-build `usize` underflow in `unprotect` ↦ `Out.panic`.
-/
import Lumina.Gen.C39

namespace Lumina.Model.PeerTracker

inductive NodeKind where
  | unknown | bridge | full | light
  deriving DecidableEq, Repr, Inhabited

/-- `NodeKind::from_agent_version` -/
def NodeKind.fromAgentVersion (s : String) : NodeKind :=
  let parts := s.splitOn "/"
  let first := parts.head?
  if first == some "lumina" then .light
  else if first == some "celestia-node" then
    -- `s.next()` consumed segment 0; `s.nth(1)` skips segment 1 and yields segment 2
    let third := parts[2]?
    if third == some "bridge" then .bridge
    else if third == some "full" then .full
    else if third == some "light" then .light
    else .unknown
  else .unknown

/-- `NodeKind::is_full` -/
def NodeKind.isFull : NodeKind → Bool
  | .full => true
  | .bridge => true
  | _ => false

structure Peer where
  id : Nat
  conns : List (Nat × Option Nat)
  prot : List Nat
  trusted : Bool
  archival : Bool
  kind : NodeKind
  /-- seconds elapsed since `disconnected_at`, if set -/
  disconnectedAt : Option Nat
  deriving DecidableEq, Repr, Inhabited

/-- `Peer::new`: starts as disconnected, now -/
def Peer.new (id : Nat) : Peer :=
  { id, conns := [], prot := [], trusted := false, archival := false, kind := .unknown,
    disconnectedAt := some 0 }

def Peer.isConnected (p : Peer) : Bool := !p.conns.isEmpty
def Peer.isProtected (p : Peer) : Bool := !p.prot.isEmpty
def Peer.isProtectedWithTag (p : Peer) (tag : Nat) : Bool := p.prot.contains tag
def Peer.isFull (p : Peer) : Bool := p.kind.isFull

/-- `Peer::best_ping` -/
def Peer.bestPing (p : Peer) : Option Nat :=
  (p.conns.filterMap (·.2)).foldl (fun acc x => match acc with | none => some x | some a => some (min a x)) none

structure Info where
  connected : Nat
  trusted : Nat
  full : Nat
  archival : Nat
  deriving DecidableEq, Repr, Inhabited

structure State where
  peers : List Peer
  protectCounter : List (Nat × Nat)
  info : Info
  deriving Repr, Inhabited

/-- `PeerTracker::new` -/
def init : State := { peers := [], protectCounter := [], info := ⟨0, 0, 0, 0⟩ }

inductive NodeEv where
  | connected (id : Nat) (trusted : Bool)
  | disconnected (id : Nat) (trusted : Bool)
  deriving DecidableEq, Repr

structure Out where
  ret : Option Bool := none
  events : List NodeEv := []
  panic : Bool := false
  deriving Repr

inductive Event where
  | addPeerId (id : Nat)
  | setTrusted (id : Nat) (v : Bool)
  | protect (id tag : Nat)
  | unprotect (id tag : Nat)
  | addConnection (id conn : Nat)
  | removeConnection (id conn : Nat)
  | agentVersion (id : Nat) (agent : String)
  | ping (id conn : Nat) (res : Option Nat)
  | markArchival (id : Nat)
  | gc
  /-- `secs` whole seconds of wall-clock time pass -/
  | advance (secs : Nat)
  deriving Repr

def hasPeer (ps : List Peer) (id : Nat) : Bool := ps.any (fun p => p.id == id)

def findPeer (ps : List Peer) (id : Nat) : Option Peer := ps.find? (fun p => p.id == id)

/-- `get_mut(id)` then mutate -/
def modifyPeer (ps : List Peer) (id : Nat) (f : Peer → Peer) : List Peer :=
  ps.map (fun p => if p.id == id then f p else p)

/-- `entry(id).or_insert_with(|| Peer::new(id))` then mutate -/
def upsertPeer (ps : List Peer) (id : Nat) (f : Peer → Peer) : List Peer :=
  if hasPeer ps id then modifyPeer ps id f else ps ++ [f (Peer.new id)]

/-- the peer the `entry(..).or_insert_with(..)` handle points at, before mutation -/
def entryPeer (ps : List Peer) (id : Nat) : Peer := (findPeer ps id).getD (Peer.new id)

/-- body of the loop in `recount_peer_tracker_info` -/
def recountStep (acc : Info) (p : Peer) : Info :=
  if p.isConnected then
    { connected := acc.connected + 1,
      trusted := if p.trusted then acc.trusted + 1 else acc.trusted,
      full := if p.isFull then acc.full + 1 else acc.full,
      archival := if p.archival then acc.archival + 1 else acc.archival }
  else acc

/-- `recount_peer_tracker_info`: the value the watch channel holds afterwards -/
def recount (ps : List Peer) : Info := ps.foldl recountStep ⟨0, 0, 0, 0⟩

def counterGet (c : List (Nat × Nat)) (tag : Nat) : Option Nat := (c.find? (fun e => e.1 == tag)).map (·.2)

/-- `*protect_counter.entry(tag).or_default() += 1` -/
def counterIncr (c : List (Nat × Nat)) (tag : Nat) : List (Nat × Nat) :=
  if c.any (fun e => e.1 == tag) then c.map (fun e => if e.1 == tag then (e.1, e.2 + 1) else e)
  else c ++ [(tag, 1)]

/-- `*protect_counter.get_mut(tag).expect(..) -= 1`; `none` = panic (missing entry or underflow) -/
def counterDecr (c : List (Nat × Nat)) (tag : Nat) : Option (List (Nat × Nat)) :=
  match counterGet c tag with
  | none => none
  | some 0 => none
  | some _ => some (c.map (fun e => if e.1 == tag then (e.1, e.2 - 1) else e))

/-- `protected_len` -/
def protectedLen (s : State) (tag : Nat) : Nat := (counterGet s.protectCounter tag).getD 0

/-- `HashSet::insert` -/
def setInsert (l : List Nat) (x : Nat) : List Nat := if l.contains x then l else l ++ [x]
/-- `HashSet::remove` -/
def setRemove (l : List Nat) (x : Nat) : List Nat := l.filter (fun y => y != x)

/-- `HashMap::insert(conn, ConnectionInfo::default())` -/
def connInsert (l : List (Nat × Option Nat)) (c : Nat) : List (Nat × Option Nat) :=
  if l.any (fun e => e.1 == c) then l.map (fun e => if e.1 == c then (c, none) else e) else l ++ [(c, none)]

/-- `EXPIRED_AFTER` in whole seconds -/
def expiredAfterSecs : Nat := Lumina.Gen.C39.EXPIRED_AFTER / 1000000000

/-- `tm.elapsed() <= EXPIRED_AFTER` for an instant moved back by `age` whole seconds: the real
    elapsed time is `age` seconds plus the (positive, sub-second) run time since the instant was taken -/
def notExpired (age : Nat) : Bool := age < expiredAfterSecs

/-- the predicate of `retain` in `gc` -/
def gcKeeps (p : Peer) : Bool :=
  p.isConnected || p.isProtected ||
    (match p.disconnectedAt with
     | none => true
     | some age => notExpired age)

def addPeerId (s : State) (id : Nat) : State × Out :=
  if hasPeer s.peers id then (s, { ret := some false })
  else ({ s with peers := s.peers ++ [Peer.new id] }, { ret := some true })

def setTrusted (s : State) (id : Nat) (v : Bool) : State × Out :=
  let peers := upsertPeer s.peers id (fun p => { p with trusted := v })
  ({ s with peers, info := recount peers }, {})

def protect (s : State) (id tag : Nat) : State × Out :=
  let p := entryPeer s.peers id
  let was := p.isProtected
  let fresh := !p.prot.contains tag
  let peers := upsertPeer s.peers id (fun p => { p with prot := setInsert p.prot tag })
  let counter := if fresh then counterIncr s.protectCounter tag else s.protectCounter
  ({ s with peers, protectCounter := counter }, { ret := some (!was) })

def unprotect (s : State) (id tag : Nat) : State × Out :=
  match findPeer s.peers id with
  | none => (s, { ret := some false })
  | some p =>
    let was := p.isProtected
    let p' := { p with prot := setRemove p.prot tag }
    let peers := modifyPeer s.peers id (fun p => { p with prot := setRemove p.prot tag })
    if p.prot.contains tag then
      match counterDecr s.protectCounter tag with
      | none => ({ s with peers }, { panic := true })
      | some c => ({ s with peers, protectCounter := c }, { ret := some (was && !p'.isProtected) })
    else ({ s with peers }, { ret := some (was && !p'.isProtected) })

def addConnection (s : State) (id conn : Nat) : State × Out :=
  let p := entryPeer s.peers id
  let prev := p.isConnected
  if prev then
    ({ s with peers := upsertPeer s.peers id (fun p => { p with conns := connInsert p.conns conn }) }, {})
  else
    let peers := upsertPeer s.peers id
      (fun p => { p with conns := connInsert p.conns conn, disconnectedAt := none })
    ({ s with peers, info := recount peers }, { events := [.connected id p.trusted] })

def removeConnection (s : State) (id conn : Nat) : State × Out :=
  match findPeer s.peers id with
  | none => (s, {})
  | some p =>
    let conns := p.conns.filter (fun e => e.1 != conn)
    if conns.isEmpty then
      let peers := modifyPeer s.peers id (fun p =>
        { p with conns := p.conns.filter (fun e => e.1 != conn), kind := .unknown, archival := false,
                 disconnectedAt := some 0 })
      ({ s with peers, info := recount peers }, { events := [.disconnected id p.trusted] })
    else
      ({ s with peers := modifyPeer s.peers id (fun p => { p with conns := p.conns.filter (fun e => e.1 != conn) }) }, {})

def onAgentVersion (s : State) (id : Nat) (agent : String) : State × Out :=
  match findPeer s.peers id with
  | none => (s, {})
  | some p =>
    if p.isConnected then
      let peers := modifyPeer s.peers id (fun p => { p with kind := NodeKind.fromAgentVersion agent })
      ({ s with peers, info := recount peers }, {})
    else (s, {})

def onPing (s : State) (id conn : Nat) (res : Option Nat) : State × Out :=
  ({ s with peers := modifyPeer s.peers id (fun p =>
      { p with conns := p.conns.map (fun e => if e.1 == conn then (e.1, res) else e) }) }, {})

def markArchival (s : State) (id : Nat) : State × Out :=
  let peers := upsertPeer s.peers id (fun p => { p with archival := true })
  ({ s with peers, info := recount peers }, {})

def gc (s : State) : State × Out :=
  ({ s with peers := s.peers.filter gcKeeps }, {})

def advance (s : State) (secs : Nat) : State × Out :=
  ({ s with peers := s.peers.map (fun p => { p with disconnectedAt := p.disconnectedAt.map (· + secs) }) }, {})

def step (s : State) : Event → State × Out
  | .addPeerId id => addPeerId s id
  | .setTrusted id v => setTrusted s id v
  | .protect id tag => protect s id tag
  | .unprotect id tag => unprotect s id tag
  | .addConnection id c => addConnection s id c
  | .removeConnection id c => removeConnection s id c
  | .agentVersion id a => onAgentVersion s id a
  | .ping id c r => onPing s id c r
  | .markArchival id => markArchival s id
  | .gc => gc s
  | .advance secs => advance s secs

/-- state after a whole history -/
def run (s : State) (evs : List Event) : State := evs.foldl (fun s e => (step s e).1) s

end Lumina.Model.PeerTracker

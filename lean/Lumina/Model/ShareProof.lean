/-
  `ShareProof::verify` (/repo/types/src/share/proof.rs) over the row-proof model and group D's
  NMT model (`Lumina.Model.Nmt`: `NsProof`, `verifyRange`).

  Two hashes are parameters: `H : HashFns D` (simple merkle tree of the DAH) and `h : Nmt.HashFn`
  (the NMT's underlying hash).  Drivers instantiate both with SHA-256.
-/
import Lumina.Model.RowProof
import Lumina.Model.Nmt
import Lumina.Model.Eds
import Lumina.Model.Decoders

namespace Lumina.Model.ShareProof
open Lumina.Util Lumina.Model.Merkle
open Lumina.Model.RowProof (RowProof)
open Lumina.Model.Nmt (NsProof NsHash)

structure ShareProof (D : Type) where
  data : List Bytes              -- `Vec<[u8; SHARE_SIZE]>`
  namespaceId : Bytes            -- `Namespace` (29 bytes)
  shareProofs : List NsProof     -- `Vec<NamespaceProof>`
  rowProof : RowProof D

inductive Err where
  | lenMismatch            -- "share proofs length (..) != row roots length (..)"
  | absenceProof           -- "only presence proofs allowed"
  | emptyRange             -- "proof without data"
  | sharesNeededMismatch   -- "shares needed (..) != proof's data length (..)"
  | sharesNeededOverflow   -- "shares needed overflow" (checked u64 sum, /repo 292f2b8)
  | row (e : RowProof.Err) -- `self.row_proof.verify(root)?`
  | rangeProof (e : Nmt.Err) -- `Error::RangeProofError`
  deriving DecidableEq, Repr

def Err.kind : Err → String
  | .lenMismatch => "ShareLenMismatch"
  | .absenceProof => "AbsenceProof"
  | .emptyRange => "EmptyRange"
  | .sharesNeededMismatch => "SharesNeededMismatch"
  | .sharesNeededOverflow => "SharesNeededOverflow"
  | .row e => e.kind
  | .rangeProof e => "RangeProof:" ++ e.kind

inductive Outcome where
  | ok
  | err (e : Err)
  | panic
  deriving DecidableEq, Repr

def u32Max : Nat := 4294967295
def u64Max : Nat := 18446744073709551615

/-- the first loop as in the ORIGINAL code: `shares_needed += proof.end_idx() - proof.start_idx()` in `u32`
    (debug build: overflow panics; release: wraps).  Kept for the counterexample theorem. -/
def sharesNeededOrig : Nat → List NsProof → Except Outcome Nat
  | acc, [] => .ok acc
  | acc, p :: ps =>
    if p.isAbsence then .error (.err .absenceProof)
    else if p.end_ ≤ p.start then .error (.err .emptyRange)
    else if u32Max < acc + (p.end_ - p.start) then .error .panic
    else sharesNeededOrig (acc + (p.end_ - p.start)) ps

/-- the first loop (current code): the range lengths are summed in `u64` with `checked_add`; an overflow is a
    verification error -/
def sharesNeeded : Nat → List NsProof → Except Outcome Nat
  | acc, [] => .ok acc
  | acc, p :: ps =>
    if p.isAbsence then .error (.err .absenceProof)
    else if p.end_ ≤ p.start then .error (.err .emptyRange)
    else if u64Max < acc + (p.end_ - p.start) then .error (.err .sharesNeededOverflow)
    else sharesNeeded (acc + (p.end_ - p.start)) ps

/-- the second loop: per row, take `amount` shares off the front of `data` and verify their range proof
    with lumina's `NamespaceProof::verify_range` (= shape validation, then nmt-rs `verify_range`; group D's
    `Decoders.safeVerifyRange`, /repo commit 07cb5f3).
    A row root that is not a 90-byte namespaced hash cannot occur in Rust (typed); the model treats it
    as a panic. `&data[..amount]` panics when fewer shares are left. -/
def rangeLoop (h : Nmt.HashFn) (ns : Bytes) : List Bytes → List NsProof → List Bytes → Outcome
  | data, p :: ps, r :: rs =>
    let amount := p.end_ - p.start
    if data.length < amount then .panic
    else
      match NsHash.ofBytes? r with
      | none => .panic
      | some root =>
        match Decoders.safeVerifyRange h p root (data.take amount) ns with
        | .error .panic => .panic
        | .error e => .err (.rangeProof e)
        | .ok () => rangeLoop h ns (data.drop amount) ps rs
  | _, _, _ => .ok

/-- `ShareProof::verify(root)`, parametric in the first loop and the row-proof verifier (original / fixed) -/
def verifyWith {D : Type} (needed : Nat → List NsProof → Except Outcome Nat)
    (rowVerify : RowProof D → Option D → RowProof.Outcome) (h : Nmt.HashFn)
    (sp : ShareProof D) (rt : Option D) : Outcome :=
  if sp.shareProofs.length ≠ sp.rowProof.rowRoots.length then .err .lenMismatch
  else
    match needed 0 sp.shareProofs with
    | .error o => o
    | .ok needed =>
      if needed ≠ sp.data.length then .err .sharesNeededMismatch
      else
        match rowVerify sp.rowProof rt with
        | .panic => .panic
        | .err e => .err (.row e)
        | .ok => rangeLoop h sp.namespaceId sp.data sp.shareProofs sp.rowProof.rowRoots

def verify {D : Type} [DecidableEq D] (H : HashFns D) (h : Nmt.HashFn) (sp : ShareProof D) (rt : Option D) :
    Outcome :=
  verifyWith sharesNeeded (RowProof.verify H) h sp rt

/-- the code before the three C13 `fix:` commits (u32 sum, u16 row span, no `index < total`) -/
def verifyOrig {D : Type} [DecidableEq D] (H : HashFns D) (h : Nmt.HashFn) (sp : ShareProof D) (rt : Option D) :
    Outcome :=
  verifyWith sharesNeededOrig (RowProof.verifyOrig H) h sp rt

/-! ### honest construction (what a full node / the test harness does; lumina has no builder) -/

open Lumina.Model.Eds (Eds Dah Axis)

inductive BuildOutcome (α : Type) where
  | ok (a : α)
  | err
  | panic

/-- per row `r0 + i` and column range `[s, e)`: the shares and `row_nmt(row).build_range_proof(s..e)`
    wrapped as a presence proof with `ignore_max_ns = true` -/
def buildLoop (h : Nmt.HashFn) (e : Eds) : Nat → List (Nat × Nat) → BuildOutcome (List Bytes × List NsProof)
  | _, [] => .ok ([], [])
  | row, (s, en) :: rest =>
    match e.axisLeafHashes h .row row, e.row? row with
    | .ok hs, some shares =>
      match Nmt.buildRangeProof h true hs s en with
      | .error _ => .panic
      | .ok sibs =>
        match buildLoop h e (row + 1) rest with
        | .ok (d, ps) =>
          .ok (((shares.drop s).take (en - s)).map (·.data) ++ d, ⟨s, en, sibs, true, false, none⟩ :: ps)
        | .err => .err
        | .panic => .panic
    | _, _ => .err

def build {D : Type} (H : HashFns D) (h : Nmt.HashFn) (e : Eds) (dah : Dah) (ns : Bytes) (r0 : Nat)
    (ranges : List (Nat × Nat)) : BuildOutcome (ShareProof D) :=
  match buildLoop h e r0 ranges with
  | .err => .err
  | .panic => .panic
  | .ok (data, sps) =>
    match RowProof.rowProof H (dah.rowRoots.map NsHash.toBytes) (dah.colRoots.map NsHash.toBytes)
            r0 (r0 + ranges.length - 1) with
    | .error _ => .err
    | .ok rp => .ok { data := data, namespaceId := ns, shareProofs := sps, rowProof := rp }

end Lumina.Model.ShareProof

/-
  Shwap identifiers and their CIDs.

  Transcribes `EdsId`, `RowId`, `SampleId`, `RowNamespaceDataId`, `NamespaceDataId`
  `{new, encode, decode}` (/repo/types/src/{eds,row,sample,row_namespace_data,namespace_data}.rs),
  the `From<Id> for CidGeneric` / `TryFrom<CidGeneric> for Id` conversions of the three identifiers
  that have a CID (row, sample, row-namespace-data), and the CIDv1 / multihash / unsigned-varint
  byte framing of the `cid` 0.11, `multihash` 0.19 and `unsigned-varint` 0.8 crates
  (`CidGeneric::{to_bytes, read_bytes}`).

  Sizes, codecs and multihash codes come from `Lumina.Gen.C15` (regenerated from /repo each run).
-/
import Lumina.Gen.C15
import Lumina.Model.Namespace

namespace Lumina.Model.ShwapId
open Lumina.Util Lumina.Gen.C15

inductive Err where
  | zeroBlockHeight                       -- `Error::ZeroBlockHeight`
  | invalidLength (got want : Nat)        -- `Error::InvalidLength`
  | ns (e : Namespace.Err)                -- namespace validation errors
  deriving DecidableEq, Repr

def Err.kind : Err → String
  | .zeroBlockHeight => "ZeroBlockHeight"
  | .invalidLength g w => s!"InvalidLength({g},{w})"
  | .ns e => e.kind

/-- big-endian bytes of `n`, `width` bytes (`BufMut::put_u64` / `put_u16`) -/
def be : Nat → Nat → Bytes
  | 0, _ => []
  | w + 1, n => UInt8.ofNat (n / 256 ^ w % 256) :: be w n

/-- big-endian value of a byte string (`Buf::get_u64` / `get_u16` on a slice of exactly that width) -/
def ofBe (bs : Bytes) : Nat := bs.foldl (fun acc b => acc * 256 + b.toNat) 0

def U64_MAX : Nat := 18446744073709551615
def U16_MAX : Nat := 65535

/-! ### EdsId -/

structure EdsId where
  height : Nat
  deriving DecidableEq, Repr

def EdsId.new (height : Nat) : Except Err EdsId :=
  if height = 0 then .error .zeroBlockHeight else .ok ⟨height⟩

def EdsId.encode (id : EdsId) : Bytes := be 8 id.height

def EdsId.decode (buf : Bytes) : Except Err EdsId :=
  if buf.length ≠ EDS_ID_SIZE then .error (.invalidLength buf.length EDS_ID_SIZE)
  else EdsId.new (ofBe buf)

/-! ### RowId -/

structure RowId where
  eds : EdsId
  index : Nat
  deriving DecidableEq, Repr

def RowId.new (index height : Nat) : Except Err RowId :=
  match EdsId.new height with
  | .error e => .error e
  | .ok eds => .ok ⟨eds, index⟩

def RowId.encode (id : RowId) : Bytes := id.eds.encode ++ be 2 id.index

def RowId.decode (buf : Bytes) : Except Err RowId :=
  if buf.length ≠ ROW_ID_SIZE then .error (.invalidLength buf.length ROW_ID_SIZE)
  else
    match EdsId.decode (buf.take EDS_ID_SIZE) with
    | .error e => .error e
    | .ok eds => .ok ⟨eds, ofBe ((buf.drop EDS_ID_SIZE).take 2)⟩

/-! ### SampleId -/

structure SampleId where
  row : RowId
  column : Nat
  deriving DecidableEq, Repr

def SampleId.new (rowIndex columnIndex height : Nat) : Except Err SampleId :=
  if height = 0 then .error .zeroBlockHeight
  else
    match RowId.new rowIndex height with
    | .error e => .error e
    | .ok r => .ok ⟨r, columnIndex⟩

def SampleId.encode (id : SampleId) : Bytes := id.row.encode ++ be 2 id.column

def SampleId.decode (buf : Bytes) : Except Err SampleId :=
  if buf.length ≠ SAMPLE_ID_SIZE then .error (.invalidLength buf.length SAMPLE_ID_SIZE)
  else
    match RowId.decode (buf.take ROW_ID_SIZE) with
    | .error e => .error e
    | .ok r => .ok ⟨r, ofBe ((buf.drop ROW_ID_SIZE).take 2)⟩

/-! ### RowNamespaceDataId -/

structure RowNamespaceDataId where
  row : RowId
  ns : Bytes
  deriving DecidableEq, Repr

/-- `RowNamespaceDataId::new(namespace, row_index, height)`; the namespace argument is typed
    (already valid) in Rust -/
def RowNamespaceDataId.new (ns : Bytes) (rowIndex height : Nat) : Except Err RowNamespaceDataId :=
  match RowId.new rowIndex height with
  | .error e => .error e
  | .ok r => .ok ⟨r, ns⟩

def RowNamespaceDataId.encode (id : RowNamespaceDataId) : Bytes := id.row.encode ++ id.ns

def RowNamespaceDataId.decode (buf : Bytes) : Except Err RowNamespaceDataId :=
  if buf.length ≠ ROW_NAMESPACE_DATA_ID_SIZE then
    .error (.invalidLength buf.length ROW_NAMESPACE_DATA_ID_SIZE)
  else
    match RowId.decode (buf.take ROW_ID_SIZE) with
    | .error e => .error e
    | .ok r =>
      match Namespace.fromRaw (buf.drop ROW_ID_SIZE) with
      | .error e => .error (.ns e)
      | .ok ns => .ok ⟨r, ns⟩

/-! ### NamespaceDataId -/

structure NamespaceDataId where
  eds : EdsId
  ns : Bytes
  deriving DecidableEq, Repr

def NamespaceDataId.new (ns : Bytes) (height : Nat) : Except Err NamespaceDataId :=
  match EdsId.new height with
  | .error e => .error e
  | .ok eds => .ok ⟨eds, ns⟩

def NamespaceDataId.encode (id : NamespaceDataId) : Bytes := id.eds.encode ++ id.ns

def NamespaceDataId.decode (buf : Bytes) : Except Err NamespaceDataId :=
  if buf.length ≠ NAMESPACE_DATA_ID_SIZE then .error (.invalidLength buf.length NAMESPACE_DATA_ID_SIZE)
  else
    match EdsId.decode (buf.take EDS_ID_SIZE) with
    | .error e => .error e
    | .ok eds =>
      match Namespace.fromRaw (buf.drop EDS_ID_SIZE) with
      | .error e => .error (.ns e)
      | .ok ns => .ok ⟨eds, ns⟩

/-! ### CIDs -/

/-- the fields of a `CidGeneric<S>`: version, content codec, multihash code, multihash digest
    (the multihash size is the digest's length) -/
structure Cid where
  version : Nat
  codec : Nat
  mhCode : Nat
  digest : Bytes
  deriving DecidableEq, Repr

inductive CidErr where
  | invalidCidCodec (c : Nat)
  | invalidMultihashLength (n : Nat)
  | invalidMultihashCode (got want : Nat)
  | invalidCid (e : Err)
  deriving DecidableEq, Repr

def CidErr.kind : CidErr → String
  | .invalidCidCodec c => s!"InvalidCidCodec({c})"
  | .invalidMultihashLength n => s!"InvalidMultihashLength({n})"
  | .invalidMultihashCode g w => s!"InvalidMultihashCode({g},{w})"
  | .invalidCid e => s!"InvalidCid:{e.kind}"

/-- the common shape of the three `TryFrom<CidGeneric<S>>` implementations -/
def ofCid {α : Type} (codec size mhCode : Nat) (decode : Bytes → Except Err α) (c : Cid) : Except CidErr α :=
  if c.codec ≠ codec then .error (.invalidCidCodec c.codec)
  else if c.digest.length ≠ size then .error (.invalidMultihashLength c.digest.length)
  else if c.mhCode ≠ mhCode then .error (.invalidMultihashCode c.mhCode mhCode)
  else
    match decode c.digest with
    | .error e => .error (.invalidCid e)
    | .ok id => .ok id

def RowId.toCid (id : RowId) : Cid := ⟨1, ROW_ID_CODEC, ROW_ID_MULTIHASH_CODE, id.encode⟩
def RowId.ofCid (c : Cid) : Except CidErr RowId :=
  ShwapId.ofCid ROW_ID_CODEC ROW_ID_SIZE ROW_ID_MULTIHASH_CODE RowId.decode c

def SampleId.toCid (id : SampleId) : Cid := ⟨1, SAMPLE_ID_CODEC, SAMPLE_ID_MULTIHASH_CODE, id.encode⟩
def SampleId.ofCid (c : Cid) : Except CidErr SampleId :=
  ShwapId.ofCid SAMPLE_ID_CODEC SAMPLE_ID_SIZE SAMPLE_ID_MULTIHASH_CODE SampleId.decode c

def RowNamespaceDataId.toCid (id : RowNamespaceDataId) : Cid :=
  ⟨1, ROW_NAMESPACE_DATA_CODEC, ROW_NAMESPACE_DATA_ID_MULTIHASH_CODE, id.encode⟩
def RowNamespaceDataId.ofCid (c : Cid) : Except CidErr RowNamespaceDataId :=
  ShwapId.ofCid ROW_NAMESPACE_DATA_CODEC ROW_NAMESPACE_DATA_ID_SIZE ROW_NAMESPACE_DATA_ID_MULTIHASH_CODE
    RowNamespaceDataId.decode c

/-! ### byte framing: unsigned varint, multihash, CIDv1 -/

/-- `unsigned_varint::encode::u64`: 7 bits per byte, least significant group first, high bit =
    continuation.  Fuel 10 is enough for every `u64`. -/
def varintGo : Nat → Nat → Bytes
  | 0, _ => []
  | f + 1, n => if n < 128 then [UInt8.ofNat n] else UInt8.ofNat (n % 128 + 128) :: varintGo f (n / 128)

def varint (n : Nat) : Bytes := varintGo 10 n

/-- `Cid::to_bytes` of a CIDv1: varint(version) ‖ varint(codec) ‖ varint(mh code) ‖ varint(mh size) ‖ digest -/
def Cid.toBytes (c : Cid) : Bytes :=
  varint c.version ++ varint c.codec ++ varint c.mhCode ++ varint c.digest.length ++ c.digest

/-- `unsigned_varint::io::read_u64` + `decode::u64`: reads at most 10 bytes; rejects a trailing zero
    group (not minimal).  Returns the value and the rest.  `i` = index of the current byte. -/
def readVarintGo : Nat → Nat → Nat → Bytes → Option (Nat × Bytes)
  | 0, _, _, _ => none                                   -- 10 bytes without a last byte: Overflow
  | _ + 1, _, _, [] => none                              -- UnexpectedEof
  | f + 1, i, acc, b :: rest =>
    let v := acc + (b.toNat % 128) * 128 ^ i
    if b.toNat < 128 then
      if b.toNat = 0 ∧ i > 0 then none                   -- NotMinimal
      else some (v % 18446744073709551616, rest)         -- `k << (i * 7)` in u64 drops overflowing bits
    else readVarintGo f (i + 1) v rest

def readVarint (bs : Bytes) : Option (Nat × Bytes) := readVarintGo 10 0 0 bs

/-- `CidGeneric::<64>::read_bytes` (bytes after the digest are left unread = ignored) -/
def Cid.read (bs : Bytes) : Option Cid :=
  match readVarint bs with
  | none => none
  | some (version, r1) =>
    match readVarint r1 with
    | none => none
    | some (codec, r2) =>
      if version = 0x12 ∧ codec = 0x20 then
        -- CIDv0: the two bytes read are a sha2-256 multihash prefix; dag-pb codec
        if r2.length < 32 then none else some ⟨0, 0x70, 0x12, r2.take 32⟩
      else if version ≠ 1 then none                       -- InvalidCidVersion / InvalidExplicitCidV0
      else
        match readVarint r2 with
        | none => none
        | some (code, r3) =>
          match readVarint r3 with
          | none => none
          | some (size, r4) =>
            if size > 64 then none                        -- `size > S`
            else if r4.length < size then none            -- read_exact: UnexpectedEof
            else some ⟨1, codec, code, r4.take size⟩

end Lumina.Model.ShwapId

/-
  Model of the bitswap multihasher for Shwap blocks (`node/src/p2p/shwap.rs`):
  `ShwapMultihasher::hash` with its macro `hash_shwap_block!(IdType, ContainerType)` instantiated for
  (RowId, Row), (RowNamespaceDataId, RowNamespaceData), (SampleId, Sample); and `get_block_container`.

  One step per line of the macro, in the macro's order:

      Block::decode(input)                      `P.decodeBlock`      (prost: parameter)
      CidGeneric::<64>::read_bytes(block.cid)   `ShwapId.Cid.read`   (group C's transcription of cid 0.11)
      <Id>::try_from(cid)                       `K.ofCid`            (group C: `ShwapId.*.ofCid`)
      <Container>::decode(id, block.container)  `K.decode`           (prost: parameter; then group D3's
                                                                      transcription of `from_raw`)
      convert_cid(&id.into())?.hash()           `mhBytes (K.toCid id)` (cannot fail: the digest is ≤ 39 bytes)
      header_store.get_by_height(height)        `store`              (parameter: height ↦ DAH of the stored header)
      container.verify(id, &header.dah)         `K.verify`           (group D3's transcription of `verify`)

  Every failure is `MultihasherError::CustomFatal(_)`; an unknown multihash code is
  `MultihasherError::UnknownMultihashCode`.  `panic` = the Rust code panics (possible only inside the containers'
  `decode`/`verify`, see C16).

  Owner: group D2.
-/
import Lumina.Model.ShwapId
import Lumina.Model.Decoders
import Lumina.Spec.C10

namespace Lumina.Model.ShwapHasher
open Lumina.Util Lumina.Model.Nmt Lumina.Model.Eds Lumina.Model.ShwapId Lumina.Model.Decoders
open Lumina.Gen.C15

inductive MhErr where
  /-- `MultihasherError::UnknownMultihashCode` -/
  | unknownCode
  /-- `MultihasherError::CustomFatal(_)` -/
  | fatal
  /-- the Rust code panics -/
  | panic
  deriving DecidableEq, Repr, Inhabited

def MhErr.kind : MhErr → String
  | .unknownCode => "UnknownMultihashCode"
  | .fatal => "CustomFatal"
  | .panic => "panic"

/-- the protobuf layer (prost) and the Reed–Solomon codec: parameters of the model -/
structure Params where
  /-- `celestia_proto::bitswap::Block::decode`: `(cid, container)` -/
  decodeBlock : Bytes → Option (Bytes × Bytes)
  /-- `RawSample::decode` -/
  decodeSample : Bytes → Option RawSample
  /-- `RawRow::decode` -/
  decodeRow : Bytes → Option RawRow
  /-- `RawRowNamespaceData::decode` -/
  decodeRnd : Bytes → Option RawRnd
  codec : Codec

/-- one instantiation `hash_shwap_block!(Id, C)` -/
structure Kind (Id C : Type) where
  /-- `<Id>::try_from(cid)` -/
  ofCid : Cid → Except CidErr Id
  /-- `CidGeneric::from(id)` -/
  toCid : Id → Cid
  /-- `id.block_height()` -/
  height : Id → Nat
  /-- `<C>::decode(id, bytes)` -/
  decode : Id → Bytes → Out C
  /-- `container.verify(id, dah)` -/
  verify : C → Id → Dah → Out Unit

/-- `Multihash::to_bytes`: varint(code) ‖ varint(size) ‖ digest -/
def mhBytes (c : Cid) : Bytes := varint c.mhCode ++ varint c.digest.length ++ c.digest

/-- the body of `hash_shwap_block!` -/
def hashBlock {Id C : Type} (K : Kind Id C) (decodeBlock : Bytes → Option (Bytes × Bytes)) (store : Nat → Option Dah)
    (input : Bytes) : Except MhErr Bytes :=
  match decodeBlock input with
  | none => .error .fatal
  | some (cidBytes, container) =>
    match Cid.read cidBytes with
    | none => .error .fatal
    | some cid =>
      match K.ofCid cid with
      | .error _ => .error .fatal
      | .ok id =>
        match K.decode id container with
        | .err => .error .fatal
        | .panic _ => .error .panic
        | .ok c =>
          let hash := mhBytes (K.toCid id)
          match store (K.height id) with
          | none => .error .fatal
          | some dah =>
            match K.verify c id dah with
            | .err => .error .fatal
            | .panic _ => .error .panic
            | .ok () => .ok hash

def sampleKind (H : HashFn) (P : Params) : Kind SampleId Sample.Sample where
  ofCid := SampleId.ofCid
  toCid := SampleId.toCid
  height := fun id => id.row.eds.height
  decode := fun id bytes =>
    match P.decodeSample bytes with
    | none => .err
    | some raw => sampleFromRaw id.row.index id.column raw
  verify := fun s id dah => sampleVerify H s id.row.index id.column dah

def rowKind (H : HashFn) (P : Params) : Kind RowId Row where
  ofCid := RowId.ofCid
  toCid := RowId.toCid
  height := fun id => id.eds.height
  decode := fun id bytes =>
    match P.decodeRow bytes with
    | none => .err
    | some raw => rowFromRaw P.codec id.index raw
  verify := fun r id dah => rowVerify H r id.index dah

def rndKind (H : HashFn) (P : Params) : Kind RowNamespaceDataId Rnd where
  ofCid := RowNamespaceDataId.ofCid
  toCid := RowNamespaceDataId.toCid
  height := fun id => id.row.eds.height
  decode := fun id bytes =>
    match P.decodeRnd bytes with
    | none => .err
    | some raw => rndFromRaw id.ns raw
  verify := fun d id dah => rndVerify H d id.ns id.row.index dah

/-- `<ShwapMultihasher as Multihasher<64>>::hash(multihash_code, input)` -/
def multihash (H : HashFn) (P : Params) (store : Nat → Option Dah) (code : Nat) (input : Bytes) : Except MhErr Bytes :=
  if code = ROW_ID_MULTIHASH_CODE then hashBlock (rowKind H P) P.decodeBlock store input
  else if code = ROW_NAMESPACE_DATA_ID_MULTIHASH_CODE then hashBlock (rndKind H P) P.decodeBlock store input
  else if code = SAMPLE_ID_MULTIHASH_CODE then hashBlock (sampleKind H P) P.decodeBlock store input
  else .error .unknownCode

/-- `get_block_container(expected_cid, block)`: the container iff the block decodes, its CID parses and equals
    the expected one (`Cid` equality = version, codec, multihash code, size and digest) -/
def getBlockContainer (decodeBlock : Bytes → Option (Bytes × Bytes)) (expected : Cid) (block : Bytes) : Option Bytes :=
  match decodeBlock block with
  | none => none
  | some (cidBytes, container) =>
    match Cid.read cidBytes with
    | none => none
    | some cid => if cid ≠ expected then none else some container

/-! ## the property's vocabulary instantiated (what the spec checker is evaluated with) -/

def outOpt {α} : Out α → Option α
  | .ok a => some a
  | _ => none

def outOk : Out Unit → Bool
  | .ok _ => true
  | _ => false

/-- "the identifier decodes, the container decodes, a header is stored at the identifier's height and the container
    verifies against its DAH" for one kind of block; the value is the identifier hash -/
def Kind.allowed {Id C : Type} (K : Kind Id C) (decodeBlock : Bytes → Option (Bytes × Bytes)) (store : Nat → Option Dah)
    (input : Bytes) : Option Bytes :=
  Lumina.Spec.C10.allows (decodeBlock input) (fun b => (Cid.read b).bind (fun c => (K.ofCid c).toOption))
    (fun id => mhBytes (K.toCid id)) K.height (fun id b => outOpt (K.decode id b)) store
    (fun c id dah => outOk (K.verify c id dah))

def knownCode (code : Nat) : Bool :=
  code = ROW_ID_MULTIHASH_CODE || code = ROW_NAMESPACE_DATA_ID_MULTIHASH_CODE || code = SAMPLE_ID_MULTIHASH_CODE

/-- the conjunction for the kind the multihash code selects -/
def allowed (H : HashFn) (P : Params) (store : Nat → Option Dah) (code : Nat) (input : Bytes) : Option Bytes :=
  if code = ROW_ID_MULTIHASH_CODE then (rowKind H P).allowed P.decodeBlock store input
  else if code = ROW_NAMESPACE_DATA_ID_MULTIHASH_CODE then (rndKind H P).allowed P.decodeBlock store input
  else (sampleKind H P).allowed P.decodeBlock store input

/-- what is observed of an outcome -/
def obsOf : Except MhErr Bytes → Lumina.Spec.C10.Obs
  | .ok h => .hash h
  | .error .unknownCode => .unknownCode
  | .error .fatal => .err
  | .error .panic => .panic

end Lumina.Model.ShwapHasher

/-
  Model of the transaction-submission protocol of `celestia_grpc::GrpcClient`
  (`grpc/src/client.rs`): `submit_message` = `sign_and_broadcast_tx` (under the account mutex) +
  `confirm_tx`, for any number of concurrent submissions of ONE client against a node whose every
  answer is an input.

  The granularity is "one node answer (or one start) at a time": after each such
  input every task runs until it blocks again (on the node, on the account mutex, on a `OnceCell`
  being initialised by another task); the sleep of the confirmation interval after a `Pending`
  status is not modelled (the status is simply queried again).  Tasks interact only through
  the node, the two `OnceCell`s and the mutex, so every interleaving of k submissions is a sequence
  of these inputs; k is unbounded.

  Rust                                                        ↔ model
  ------------------------------------------------------------------------------------------------
  load_chain_state (OnceCell::get_or_try_init, FIFO permit)    ↔ enterChain / answer to `reqL`
  lock_account (OnceCell + tokio::sync::Mutex, FIFO hand-off)  ↔ enterAcct / enterLock / releaseLock
  sign_and_broadcast_tx loop                                   ↔ csLoop
  calculate_transaction_gas_params                             ↔ csLoop (`reqP`, `reqE`)
  sign_tx                                                      ↔ signTx (event `S`)
  broadcast_tx_with_account / broadcast_tx_with_cfg            ↔ answer to `reqB`
  extract_sequence_on_mismatch / extract_sequence              ↔ answers `mis n` / `misbad`; parser below
  confirm_tx                                                   ↔ answers to `reqT` / `reqRB`
  is_wrong_sequence                                            ↔ isWrongSequence
-/
import Lumina.Model.Util

namespace Lumina.Model.TxSeq

/-- what `sign_tx` signed: who asked, with which sequence, gas limit and fee (ECDSA signing is
    deterministic, so these determine the transaction bytes) -/
structure Tx where
  sub : Nat
  seq : Nat
  gas : Nat
  fee : Nat
  deriving DecidableEq, Repr

inductive Res where
  | ok (height : Nat)
  | tonic
  | broadcastFailed (code : Nat)
  | seqParse
  | execFailed (code : Nat)
  | rejected (code : Nat)
  | evicted
  | notFound
  deriving DecidableEq, Repr

inductive Phase where
  | idle
  | waitChain | reqL
  | waitAcct | reqG
  | waitLock
  | reqP | reqE (tx : Nat) | reqB (tx : Nat)
  | reqT | reqRB (notFound : Bool)
  | waitRollback (code : Nat)
  | done (r : Res)
  deriving DecidableEq, Repr

structure Sub where
  gl : Option Nat := none
  /-- gas price in quarters -/
  gp : Option Nat := none
  phase : Phase := .idle
  /-- id and signed sequence of the accepted broadcast -/
  acc : Option Nat := none
  accSeq : Nat := 0
  deriving Repr

structure Cell where
  ready : Bool := false
  busy : Bool := false
  waiters : List Nat := []
  deriving Repr

inductive Event where
  | sign (sub : Nat) (txid : Nat) (tx : Tx)
  | finished (sub : Nat) (r : Res)
  deriving Repr

structure St where
  /-- the sequence the client believes current (`account.base.sequence`) -/
  seq : Nat := 0
  chain : Cell := {}
  acct : Cell := {}
  lockHeld : Option Nat := none
  lockQ : List Nat := []
  subs : List (Nat × Sub) := []
  /-- distinct signed transactions in order of first signing -/
  txs : List Tx := []
  events : List Event := []
  deriving Repr

/-- node answers (and the two non-answer inputs) -/
inductive Ans where
  | ok
  | okSeq (n : Nat)                 -- account query: the account's sequence
  | okPrice (q : Nat)               -- estimate_gas_price
  | okEst (q : Nat) (usage : Nat)   -- estimate_gas_price_and_usage
  | cache                           -- TxInMempoolCache (19)
  | mis (n : Nat)                   -- "account sequence mismatch, expected n, …" (TxResponse code 32 or gRPC status)
  | misbad                          -- sequence error whose message does not parse
  | code (c : Nat)                  -- any other non-zero TxResponse code
  | fail                            -- gRPC error without the pattern
  | pending
  | committed (c : Nat) (height : Nat)
  | rejected (c : Nat)
  | evicted
  | unknown
  deriving DecidableEq, Repr

inductive Op where
  | start (sub : Nat) (gl gp : Option Nat)
  | ans (sub : Nat) (a : Ans)
  deriving Repr

def getSub (st : St) (i : Nat) : Sub :=
  match st.subs.lookup i with
  | some s => s
  | none => {}

def setSubL : List (Nat × Sub) → Nat → Sub → List (Nat × Sub)
  | [], i, s => [(i, s)]
  | (j, t) :: rest, i, s => if j = i then (j, s) :: rest else (j, t) :: setSubL rest i s

def setSub (st : St) (i : Nat) (s : Sub) : St := { st with subs := setSubL st.subs i s }

def setPhase (st : St) (i : Nat) (p : Phase) : St := setSub st i { getSub st i with phase := p }

def emit (st : St) (e : Event) : St := { st with events := st.events ++ [e] }

/-- `is_wrong_sequence`: InvalidSequence = 3, WrongSequence = 32 -/
def isWrongSequence (c : Nat) : Bool := c == 3 || c == 32

/-- id of a transaction in the table of distinct signed transactions -/
def txId (st : St) (tx : Tx) : St × Nat :=
  match st.txs.idxOf? tx with
  | some k => (st, k)
  | none => ({ st with txs := st.txs ++ [tx] }, st.txs.length)

/-- `sign_tx` with the CURRENT believed sequence -/
def signTx (st : St) (i gas fee : Nat) : St × Nat :=
  let tx : Tx := { sub := i, seq := st.seq, gas := gas, fee := fee }
  let (st, k) := txId st tx
  (emit st (.sign i k tx), k)

/-- `(gas_limit as f64 * gas_price).ceil()` with the price in quarters -/
def feeOf (gas q : Nat) : Nat := (gas * q + 3) / 4

def signAndBroadcast (st : St) (i gas q : Nat) : St :=
  let (st, k) := signTx st i gas (feeOf gas q)
  setPhase st i (.reqB k)

/-- top of the `loop` in `sign_and_broadcast_tx` -/
def csLoop (st : St) (i : Nat) : St :=
  let s := getSub st i
  match s.gl, s.gp with
  | some g, some q => signAndBroadcast st i g q
  | some _, none => setPhase st i .reqP
  | none, _ =>
    let (st, k) := signTx st i 0 1
    setPhase st i (.reqE k)

def finish (st : St) (i : Nat) (r : Res) : St :=
  emit (setPhase st i (.done r)) (.finished i r)

/-- the mutex guard is dropped: the lock is handed to the first waiter, which runs until it
    blocks (a submission enters its loop; a rollback writes the sequence and releases again) -/
def releaseLock : (fuel : Nat) → St → St
  | 0, st => { st with lockHeld := none }
  | fuel + 1, st =>
    match st.lockQ with
    | [] => { st with lockHeld := none }
    | j :: q =>
      let st := { st with lockHeld := some j, lockQ := q }
      match (getSub st j).phase with
      | .waitRollback c =>
        let st := { st with seq := (getSub st j).accSeq }
        releaseLock fuel (finish st j (.rejected c))
      | _ => csLoop st j

def release (st : St) : St := releaseLock (st.lockQ.length + 1) st

/-- `account.base…lock().await` for a submission -/
def enterLock (st : St) (i : Nat) : St :=
  match st.lockHeld with
  | none => csLoop { st with lockHeld := some i } i
  | some _ => setPhase { st with lockQ := st.lockQ ++ [i] } i .waitLock

/-- `lock_account`: the account `OnceCell`, then the mutex -/
def enterAcct (st : St) (i : Nat) : St :=
  if st.acct.ready then enterLock st i
  else if st.acct.busy then setPhase { st with acct := { st.acct with waiters := st.acct.waiters ++ [i] } } i .waitAcct
  else setPhase { st with acct := { st.acct with busy := true } } i .reqG

/-- `load_chain_state`: the chain-state `OnceCell` -/
def enterChain (st : St) (i : Nat) : St :=
  if st.chain.ready then enterAcct st i
  else if st.chain.busy then setPhase { st with chain := { st.chain with waiters := st.chain.waiters ++ [i] } } i .waitChain
  else setPhase { st with chain := { st.chain with busy := true } } i .reqL

/-- the critical section ends with an error -/
def failCS (st : St) (i : Nat) (r : Res) : St := release (finish st i r)

/-- answer to `get_latest_block` (chain-state `OnceCell` initialiser) -/
def ansL (st : St) (i : Nat) : Ans → St
  | .ok =>
    let ws := st.chain.waiters
    let st := { st with chain := { ready := true, busy := false, waiters := [] } }
    ws.foldl enterAcct (enterAcct st i)
  | _ =>
    let st := finish st i .tonic
    match st.chain.waiters with
    | [] => { st with chain := { st.chain with busy := false } }
    | w :: ws => setPhase { st with chain := { st.chain with waiters := ws } } w .reqL

/-- answer to `get_account` (account `OnceCell` initialiser) -/
def ansG (st : St) (i : Nat) : Ans → St
  | .okSeq n =>
    let ws := st.acct.waiters
    let st := { st with seq := n, acct := { ready := true, busy := false, waiters := [] } }
    ws.foldl enterLock (enterLock st i)
  | _ =>
    let st := finish st i .tonic
    match st.acct.waiters with
    | [] => { st with acct := { st.acct with busy := false } }
    | w :: ws => setPhase { st with acct := { st.acct with waiters := ws } } w .reqG

/-- answer to `estimate_gas_price` -/
def ansP (st : St) (i : Nat) : Ans → St
  | .okPrice q => signAndBroadcast st i ((getSub st i).gl.getD 0) q
  | _ => failCS st i .tonic

/-- answer to `estimate_gas_price_and_usage` (simulation of a transaction signed with the
    believed sequence) -/
def ansE (st : St) (i : Nat) : Ans → St
  | .okEst q u => signAndBroadcast st i u ((getSub st i).gp.getD q)
  | .mis n => csLoop { st with seq := n } i
  | .misbad => failCS st i .seqParse
  | _ => failCS st i .tonic

/-- the broadcast was accepted (code 0, or "already in the mempool cache") -/
def accept (st : St) (i k : Nat) : St :=
  let st := { st with seq := st.seq + 1 }
  let st := setSub st i { getSub st i with phase := .reqT, acc := some k,
                                           accSeq := (st.txs.getD k ⟨0, 0, 0, 0⟩).seq }
  release st

/-- answer to the broadcast inside the critical section -/
def ansB (st : St) (i k : Nat) : Ans → St
  | .ok => accept st i k
  | .cache => accept st i k
  | .mis n => csLoop { st with seq := n } i
  | .misbad => failCS st i .seqParse
  | .code c => failCS st i (.broadcastFailed c)
  | _ => failCS st i .tonic

/-- answer to `tx_status` in `confirm_tx` -/
def ansT (st : St) (i : Nat) : Ans → St
  -- `interval.tick().await`, then the status is queried again
  | .pending => st
  | .committed c h => finish st i (if c = 0 then .ok h else .execFailed c)
  | .rejected c =>
    if isWrongSequence c then finish st i (.rejected c)
    else
      match st.lockHeld with
      | none => finish { st with seq := (getSub st i).accSeq } i (.rejected c)
      | some _ => setPhase { st with lockQ := st.lockQ ++ [i] } i (.waitRollback c)
  | .evicted => setPhase st i (.reqRB false)
  | .unknown => setPhase st i (.reqRB true)
  | _ => finish st i .tonic

/-- answer to the re-broadcast of the SAME transaction (never re-signed) -/
def ansRB (st : St) (i : Nat) (nf : Bool) : Ans → St
  | .ok => setPhase st i .reqT
  | _ => finish st i (if nf then .notFound else .evicted)

/-- an answer to the pending request of submission `i` -/
def answer (st : St) (i : Nat) (a : Ans) : St :=
  match (getSub st i).phase with
  | .reqL => ansL st i a
  | .reqG => ansG st i a
  | .reqP => ansP st i a
  | .reqE _ => ansE st i a
  | .reqB k => ansB st i k a
  | .reqT => ansT st i a
  | .reqRB nf => ansRB st i nf a
  | _ => st

def step (st : St) (op : Op) : St :=
  let st := { st with events := [] }
  match op with
  | .start i gl gp =>
    if (getSub st i).phase = .idle then enterChain (setSub st i { gl := gl, gp := gp }) i else st
  | .ans i a => answer st i a

def run (st : St) (ops : List Op) : St := ops.foldl step st

/-! ## `extract_sequence` -/

/-- "account sequence mismatch, expected " -/
def SEQUENCE_ERROR_PAT : List Char := "account sequence mismatch, expected ".toList

/-- `str::split_once(pat)`: split at the FIRST occurrence -/
def splitOnce (pat : List Char) : List Char → Option (List Char × List Char)
  | [] => if pat.isEmpty then some ([], []) else none
  | c :: rest =>
    if pat.isPrefixOf (c :: rest) then some ([], (c :: rest).drop pat.length)
    else match splitOnce pat rest with
      | some (a, b) => some (c :: a, b)
      | none => none

def digitsVal : List Char → Nat → Option Nat
  | [], acc => some acc
  | c :: rest, acc => if '0' ≤ c ∧ c ≤ '9' then digitsVal rest (acc * 10 + (c.toNat - 48)) else none

/-- `str::parse::<u64>` -/
def stripPlus : List Char → List Char
  | [] => []
  | c :: rest => if c = '+' then rest else c :: rest

def parseU64 (cs : List Char) : Option Nat :=
  let ds := stripPlus cs
  if ds.isEmpty then none
  else match digitsVal ds 0 with
    | some n => if n ≤ 18446744073709551615 then some n else none
    | none => none

/-- `extract_sequence(msg)`: `none` = `SequenceParsingFailed` -/
def extractSequence (msg : List Char) : Option Nat :=
  match splitOnce SEQUENCE_ERROR_PAT msg with
  | none => none
  | some (_, rest) =>
    match splitOnce [','] rest with
    | none => none
    | some (num, _) => parseU64 num

end Lumina.Model.TxSeq

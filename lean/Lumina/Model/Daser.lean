/-
  Executable model of the data-availability sampler's worker, `/repo/node/src/daser.rs`
  (`Worker::{run, connecting_event_loop, connected_event_loop, on_cmd, on_want_to_prune,
  schedule_next_sample_block, update_queue}`, `random_indexes`) as a state machine over
  *stimuli* (one `Ev` = one thing the environment does; the worker then runs until it is
  parked in its `select!` again) producing the list of *observable actions* (`Tok`) the worker
  performs in between: calls on the `Store`, `NodeEvent`s, bitswap requests, command replies.

  * `BlockRanges` values are `Lumina.Model.Ranges` values and every operation on them is the
    transcribed one (`pop_head`, `insert_relaxed`, `remove_relaxed`, `-`), `.expect(..)` included:
    a failing `expect` is the outcome `Fail.panic` (the spawned worker task dies silently).
  * The `Store` (`StoreSt`) and the header chain (`hdr`: square width and whether
    `in_sampling_window(header.time())` holds) are the environment; the events `insert` / `remove`
    are what the syncer / pruner do to the store (`InMemoryStore::{insert, remove_height}`).
  * `random_indexes`' randomness is an *input*: every started block consumes one element of `rnd`,
    the list of raw `(u16, u16)` draws of `thread_rng`, and the transcribed loop runs on it.
  * CIDs are represented by the `(row, column)` they identify at the block's height
    (`sample_cid` is injective; the byte encoding is C15's subject).
  * `cand` is a ghost field (never read by a transition): the stored-and-not-sampled heights the
    worker learnt at its last `update_queue`, minus the heights it marked since.  The C34 spec
    talks about it ("highest known stored height that is not sampled").
  * loops: the `loop` in `schedule_next_sample_block` and the `while schedule…` loop carry fuel;
    `Lumina.Proofs.Daser` shows the fuel never runs out.

  Import-free apart from `Lumina.Model.Ranges`.
-/
import Lumina.Model.Ranges

namespace Lumina.Model.Daser
open Lumina.Model.Ranges

/-- `(row, column)` of a share of the extended square -/
abbrev Share := Nat × Nat

inductive Fail where
  | panic     -- a failed `.expect(..)` / arithmetic overflow inside the worker task
  | fuel      -- model artefact: a loop bound was hit (proved unreachable)
  | diverge   -- `random_indexes`' `while` loop never exits on the given draws
  deriving DecidableEq, Repr

abbrev M := Except Fail

def liftR {α} : Res α → M α
  | .ok a => .ok a
  | .error _ => .error .panic

/-! ## `random_indexes` -/

/-- the whole square, row by row -/
def fullGrid (w : Nat) : List Share :=
  (List.range w).flatMap (fun r => (List.range w).map (fun c => (r, c)))

/-- `HashSet::insert` on a duplicate-free list -/
def setInsert (acc : List Share) (p : Share) : List Share :=
  if acc.contains p then acc else acc ++ [p]

/-- `while indexes.len() < max { indexes.insert((rng.gen() % w, rng.gen() % w)) }` over the
    given raw draws; `none` = the draws ran out before the loop condition became false -/
def randLoop (w max : Nat) : List (Nat × Nat) → List Share → Option (List Share)
  | [], acc => if acc.length < max then none else some acc
  | d :: ds, acc =>
    if acc.length < max then randLoop w max ds (setInsert acc (d.1 % w, d.2 % w))
    else some acc

/-- `random_indexes(square_width, max_samples_needed)` -/
def randomIndexes (w max : Nat) (draws : List (Nat × Nat)) : Option (List Share) :=
  if w * w ≤ max then some (fullGrid w) else randLoop w max draws []

/-! ## state -/

structure Cfg where
  /-- `concurrency_limit` -/
  limit : Nat
  /-- `additional_headersub_concurrency` -/
  extra : Nat
  /-- `MAX_SAMPLES_NEEDED` -/
  maxSamples : Nat
  /-- `PRUNER_THRESHOLD` -/
  prunerThreshold : Nat

/-- what the worker reads from a stored header -/
structure Hdr where
  /-- `header.square_width()` -/
  width : Nat
  /-- `in_sampling_window(header.time())` -/
  fresh : Bool

/-- the `Store` as far as the daser uses it -/
structure StoreSt where
  stored : Ranges
  sampled : Ranges
  /-- `SamplingMetadata.cids` per height -/
  smeta : List (Nat × List Share)

/-- one element of `sampling_futs` -/
structure Fut where
  height : Nat
  width : Nat
  /-- `share_indexes` -/
  shares : List Share
  /-- `get_sample` futures still in `futs` -/
  pending : List Share
  /-- `sampling_timed_out` -/
  timedOut : Bool

structure Worker where
  queue : Ranges
  timedOut : Ranges
  ongoing : Ranges
  willBePruned : Ranges
  futs : List Fut
  headHeight : Option Nat
  highestPrunable : Option Nat
  numPrunable : Nat
  /-- in `connected_event_loop` (else in `connecting_event_loop`) -/
  connected : Bool
  /-- the `head` captured by the pending `store.wait_new_head()` future -/
  waitHead : Nat
  /-- `run` returned an error or the task panicked -/
  dead : Bool
  /-- ghost: see the file header -/
  cand : Ranges

structure State where
  cfg : Cfg
  hdr : Nat → Hdr
  store : StoreSt
  w : Worker

def Worker.init : Worker :=
  { queue := [], timedOut := [], ongoing := [], willBePruned := [], futs := [], headHeight := none,
    highestPrunable := none, numPrunable := 0, connected := false, waitHead := 0, dead := false,
    cand := [] }

def Worker.deadState : Worker := { Worker.init with dead := true }

def init (cfg : Cfg) (hdr : Nat → Hdr) : State :=
  { cfg := cfg, hdr := hdr, store := { stored := [], sampled := [], smeta := [] }, w := Worker.init }

/-! ## observable actions and stimuli -/

inductive Tok where
  /-- `store.get_stored_header_ranges()` (first call of `update_queue`) -/
  | scan
  /-- `store.update_sampling_metadata(h, cids)` -/
  | metaUpd (h : Nat) (cids : List Share)
  /-- `store.mark_as_sampled(h)` -/
  | mark (h : Nat)
  /-- `NodeEvent::SamplingStarted` -/
  | started (h w : Nat) (shares : List Share)
  /-- the `GetShwapCid` commands of one block -/
  | req (h : Nat) (shares : List Share)
  /-- `NodeEvent::ShareSamplingResult` -/
  | share (h : Nat) (p : Share) (timedOut : Bool)
  /-- `NodeEvent::SamplingResult` -/
  | result (h : Nat) (timedOut : Bool)
  /-- reply to `DaserCmd::WantToPrune` -/
  | grant (h : Nat) (ok : Bool)
  /-- `WantToPrune` got no reply (worker gone) -/
  | grantErr (h : Nat)
  /-- `NodeEvent::FatalDaserError` -/
  | fatal
  /-- the store rejected the environment's `insert` / `remove_height` -/
  | storeErr
  deriving DecidableEq, Repr

inductive Ev where
  /-- the syncer inserts headers `lo..=hi` -/
  | insert (lo hi : Nat)
  /-- the pruner removes a header -/
  | remove (h : Nat)
  /-- the peer tracker publishes `num_connected_peers = n` -/
  | peers (n : Nat)
  /-- `DaserCmd::WantToPrune` -/
  | prune (h : Nat)
  /-- `DaserCmd::UpdateHighestPrunableHeight` -/
  | setHighestPrunable (v : Nat)
  /-- `DaserCmd::UpdateNumberOfPrunableBlocks` -/
  | setNumPrunable (v : Nat)
  /-- the network answers the request for share `p` of block `h` (`Ok(sample)` or `RequestTimedOut`) -/
  | answer (h : Nat) (p : Share) (timedOut : Bool)
  deriving DecidableEq, Repr

/-! ## the store (environment side) -/

def metaUpdate (m : List (Nat × List Share)) (h : Nat) (cids : List Share) : List (Nat × List Share) :=
  match m with
  | [] => [(h, cids)]
  | (k, old) :: rest =>
    if k == h then (k, cids.foldl setInsert old) :: rest
    else (k, old) :: metaUpdate rest h cids

def metaGet (m : List (Nat × List Share)) (h : Nat) : List Share :=
  match m.find? (fun e => e.1 == h) with
  | some e => e.2
  | none => []

/-- `InMemoryStore::insert` of the headers `lo..=hi` of the chain -/
def storeInsert (st : StoreSt) (lo hi : Nat) : Option StoreSt :=
  match checkInsertionConstraints st.stored (lo, hi) with
  | .error _ => none
  | .ok _ =>
    match insertRelaxed st.stored (lo, hi), removeRelaxed st.sampled (lo, hi) with
    | .ok stored', .ok sampled' => some { st with stored := stored', sampled := sampled' }
    | _, _ => none

/-- `InMemoryStore::remove_height` -/
def storeRemove (st : StoreSt) (h : Nat) : Option StoreSt :=
  if !contains st.stored h then none
  else
    match removeRelaxed st.stored (h, h), removeRelaxed st.sampled (h, h) with
    | .ok stored', .ok sampled' =>
      some { stored := stored', sampled := sampled', smeta := st.smeta.filter (fun e => e.1 != h) }
    | _, _ => none

/-! ## the worker -/

/-- `update_queue` -/
def updateQueue (s : State) : M (State × List Tok) := do
  let stored := s.store.stored
  let sampled := s.store.sampled
  let c ← liftR (sub stored sampled)
  let q1 ← liftR (sub c s.w.timedOut)
  let q2 ← liftR (sub q1 s.w.ongoing)
  let q3 ← liftR (sub q2 s.w.willBePruned)
  pure ({ s with w := { s.w with headHeight := head stored, queue := q3, cand := c } }, [Tok.scan])

/-- the `concurrency_limit` chosen for a popped height -/
def concurrencyLimit (cfg : Cfg) (w : Worker) (h : Nat) : Nat :=
  if decide (h ≤ w.highestPrunable.getD 0) && decide (w.numPrunable ≥ cfg.prunerThreshold) then 0
  else if h == w.headHeight.getD 0 then cfg.limit + cfg.extra
  else cfg.limit

/-- the `loop { … }` at the top of `schedule_next_sample_block`:
    `some h` = `break header` (height popped), `none` = `return Ok(false)` -/
def pickHeader : Nat → State → M (Option Nat × State × List Tok)
  | 0, _ => .error .fuel
  | fuel + 1, s => do
    let (top, q') ← liftR (popHead s.w.queue)
    let s1 : State := { s with w := { s.w with queue := q' } }
    match top with
    | none => pure (none, s1, [])
    | some h =>
      if s1.w.futs.length ≥ concurrencyLimit s1.cfg s1.w h then do
        let q'' ← liftR (insertRelaxed q' (h, h))
        pure (none, { s1 with w := { s1.w with queue := q'' } }, [])
      else if contains s1.store.stored h then
        pure (some h, s1, [])
      else do
        let (s2, t2) ← updateQueue s1
        let (r, s3, t3) ← pickHeader fuel s2
        pure (r, s3, t2 ++ t3)

/-- `schedule_next_sample_block`; the `Fut` is the future pushed to `sampling_futs` -/
def scheduleNext (s : State) (draws : List (Nat × Nat)) : M (Option Fut × State × List Tok) := do
  let (top, s1, t1) ← pickHeader 3 s
  match top with
  | none => pure (none, s1, t1)
  | some h =>
    let hd := s1.hdr h
    if !hd.fresh then do
      let q ← liftR (removeRelaxed s1.w.queue (1, h))
      let t ← liftR (insertRelaxed s1.w.timedOut (1, h))
      pure (none, { s1 with w := { s1.w with queue := q, timedOut := t } }, t1)
    else
      match randomIndexes hd.width s1.cfg.maxSamples draws with
      | none => .error .diverge
      | some shares => do
        let st' : StoreSt := { s1.store with smeta := metaUpdate s1.store.smeta h shares }
        let f : Fut := { height := h, width := hd.width, shares := shares, pending := shares, timedOut := false }
        let o ← liftR (insertRelaxed s1.w.ongoing (h, h))
        pure (some f, { s1 with store := st', w := { s1.w with futs := s1.w.futs ++ [f], ongoing := o } },
              t1 ++ [Tok.metaUpd h shares])

/-- `while self.schedule_next_sample_block().await? {}`; returns the newly pushed futures -/
def scheduleLoop : Nat → State → List (List (Nat × Nat)) → M (List Fut × State × List Tok)
  | 0, _, _ => .error .fuel
  | fuel + 1, s, rnd => do
    let (r, s1, t1) ← scheduleNext s (rnd.headD [])
    match r with
    | none => pure ([], s1, t1)
    | some f =>
      let (fs, s2, t2) ← scheduleLoop fuel s1 rnd.tail
      pure (f :: fs, s2, t1 ++ t2)

/-- first poll of a freshly pushed future: `SamplingStarted`, then one request per share -/
def pollNew (fs : List Fut) : List Tok :=
  fs.map (fun f => Tok.started f.height f.width f.shares) ++ fs.map (fun f => Tok.req f.height f.shares)

/-- top of the `connected_event_loop` loop up to the next `select!` -/
def scheduleAll (s : State) (rnd : List (List (Nat × Nat))) : M (State × List Tok) := do
  let (fs, s1, t1) ← scheduleLoop (s.cfg.limit + s.cfg.extra + 1) s rnd
  pure (s1, t1 ++ pollNew fs)

/-- `on_want_to_prune` -/
def onWantToPrune (s : State) (h : Nat) : M (Bool × State) :=
  if contains s.w.ongoing h then pure (false, s)
  else do
    let q ← liftR (removeRelaxed s.w.queue (h, h))
    let p ← liftR (insertRelaxed s.w.willBePruned (h, h))
    pure (true, { s with w := { s.w with queue := q, willBePruned := p } })

/-- the worker's `run` returned `Err` -/
def die (s : State) : State := { s with w := Worker.deadState }

/-- the `Some(res) = self.sampling_futs.next()` arm for a finished block -/
def onSamplingDone (s : State) (h : Nat) (timedOut : Bool) (rnd : List (List (Nat × Nat))) :
    M (State × List Tok) := do
  let futs := s.w.futs.filter (fun f => f.height != h)
  if timedOut then do
    let t ← liftR (insertRelaxed s.w.timedOut (h, h))
    let o ← liftR (removeRelaxed s.w.ongoing (h, h))
    scheduleAll { s with w := { s.w with futs := futs, timedOut := t, ongoing := o } } rnd
  else if !contains s.store.stored h then
    -- `mark_as_sampled` = `Err(NotFound)`: fatal
    pure (die s, [Tok.mark h, Tok.fatal])
  else do
    let sm ← liftR (insertRelaxed s.store.sampled (h, h))
    let c ← liftR (removeRelaxed s.w.cand (h, h))
    let o ← liftR (removeRelaxed s.w.ongoing (h, h))
    let (s', t) ← scheduleAll { s with store := { s.store with sampled := sm },
                                       w := { s.w with futs := futs, ongoing := o, cand := c } } rnd
    pure (s', Tok.mark h :: t)

/-- one `get_sample` of block `h` resolves -/
def onAnswer (s : State) (h : Nat) (p : Share) (timedOut : Bool) (rnd : List (List (Nat × Nat))) :
    M (State × List Tok) :=
  match s.w.futs.find? (fun f => f.height == h) with
  | none => pure (s, [])
  | some f =>
    if !f.pending.contains p then pure (s, [])
    else
      let f' : Fut := { f with pending := f.pending.erase p, timedOut := f.timedOut || timedOut }
      if f'.pending.isEmpty then do
        let (s', t) ← onSamplingDone s h f'.timedOut rnd
        pure (s', Tok.share h p timedOut :: Tok.result h f'.timedOut :: t)
      else
        pure ({ s with w := { s.w with futs := s.w.futs.map (fun g => if g.height == h then f' else g) } },
              [Tok.share h p timedOut])

/-- leaving `connected_event_loop` after "All peers disconnected" -/
def disconnect (s : State) : State :=
  { s with w := { s.w with futs := [], queue := [], ongoing := [], timedOut := [], headHeight := none,
                           connected := false, cand := [] } }

/-- entering `connected_event_loop` -/
def connect (s : State) (rnd : List (List (Nat × Nat))) : M (State × List Tok) := do
  let s0 : State := { s with w := { s.w with connected := true, waitHead := (head s.store.stored).getD 0 } }
  let (s1, t1) ← updateQueue s0
  let (s2, t2) ← scheduleAll s1 rnd
  pure (s2, t1 ++ t2)

/-- the worker's reaction to one stimulus (worker alive) -/
def stepM (s : State) (ev : Ev) (rnd : List (List (Nat × Nat))) : M (State × List Tok) :=
  match ev with
  | .insert lo hi =>
    match storeInsert s.store lo hi with
    | none => pure (s, [Tok.storeErr])
    | some st =>
      let s1 : State := { s with store := st }
      let newHead := (head st.stored).getD 0
      if s1.w.connected && newHead != s1.w.waitHead then do
        -- `wait_new_head` fires
        let s2 : State := { s1 with w := { s1.w with waitHead := newHead } }
        let (s3, t3) ← updateQueue s2
        let (s4, t4) ← scheduleAll s3 rnd
        pure (s4, t3 ++ t4)
      else pure (s1, [])
  | .remove h =>
    match storeRemove s.store h with
    | none => pure (s, [Tok.storeErr])
    | some st => pure ({ s with store := st }, [])
  | .peers n =>
    if s.w.connected then
      if n == 0 then pure (disconnect s, [])
      else scheduleAll s rnd
    else if n == 0 then pure (s, [])
    else connect s rnd
  | .prune h => do
    let (ok, s1) ← onWantToPrune s h
    if s1.w.connected then do
      let (s2, t2) ← scheduleAll s1 rnd
      pure (s2, Tok.grant h ok :: t2)
    else pure (s1, [Tok.grant h ok])
  | .setHighestPrunable v =>
    let s1 : State := { s with w := { s.w with highestPrunable := some v } }
    if s1.w.connected then scheduleAll s1 rnd else pure (s1, [])
  | .setNumPrunable v =>
    let s1 : State := { s with w := { s.w with numPrunable := v } }
    if s1.w.connected then scheduleAll s1 rnd else pure (s1, [])
  | .answer h p to => onAnswer s h p to rnd

/-- what the environment alone does when the worker is gone -/
def stepDead (s : State) (ev : Ev) : State × List Tok :=
  match ev with
  | .insert lo hi =>
    match storeInsert s.store lo hi with
    | none => (s, [Tok.storeErr])
    | some st => ({ s with store := st }, [])
  | .remove h =>
    match storeRemove s.store h with
    | none => (s, [Tok.storeErr])
    | some st => ({ s with store := st }, [])
  | .prune h => (s, [Tok.grantErr h])
  | _ => (s, [])

/-- one stimulus -/
def step (s : State) (ev : Ev) (rnd : List (List (Nat × Nat))) : State × List Tok :=
  if s.w.dead then stepDead s ev
  else
    match stepM s ev rnd with
    | .ok r => r
    | .error _ =>
      -- the worker task is gone without a `FatalDaserError`
      (die s, match ev with | .prune h => [Tok.grantErr h] | _ => [])

/-- a whole history; `rnds` gives the draws for each stimulus -/
def run (s : State) : List (Ev × List (List (Nat × Nat))) → State × List (List Tok)
  | [] => (s, [])
  | (ev, rnd) :: rest =>
    let (s1, t) := step s ev rnd
    let (s2, ts) := run s1 rest
    (s2, t :: ts)

/-! ## answers that are neither a sample nor a timeout

  `get_sample` returns an error other than `RequestTimedOut` when the P2p layer fails (`WorkerDied`, a closed
  channel) or when the bytes handed back do not decode to the requested sample (`get_block_container`: not a
  `Block`, CID different from the requested one; `Sample::decode` fails).  The block future then returns
  `Err(e)` *before* publishing a `ShareSamplingResult`, the `select!` arm propagates it (`res?`), `run` returns
  `Err` and `Daser::start`'s task publishes `FatalDaserError`: the worker is gone, nothing is marked.
  Kept outside `Ev` (additive): `Stim` is a stimulus of either kind. -/

/-- the network's answer for share `p` of block `h` is an error other than a timeout, or undecodable / foreign bytes -/
def onBadAnswer (s : State) (h : Nat) (p : Share) : State × List Tok :=
  if s.w.dead then (s, [])
  else
    match s.w.futs.find? (fun f => f.height == h) with
    | none => (s, [])
    | some f => if f.pending.contains p then (die s, [Tok.fatal]) else (s, [])

inductive Stim where
  | ev (e : Ev) (rnd : List (List (Nat × Nat)))
  | badAnswer (h : Nat) (p : Share)

def stepX (s : State) : Stim → State × List Tok
  | .ev e rnd => step s e rnd
  | .badAnswer h p => onBadAnswer s h p

def runX (s : State) : List Stim → State × List (List Tok)
  | [] => (s, [])
  | st :: rest =>
    let (s1, t) := stepX s st
    let (s2, ts) := runX s1 rest
    (s2, t :: ts)

end Lumina.Model.Daser

/-
  Header-ex request retries (C32): model of the non-HEAD request path of
  `HeaderExClientHandler` (`node/src/p2p/header_ex/client.rs`): `on_send_request`,
  `schedule_pending_requests_impl`, `on_response_received` + the `TaskResult::Req` arm of `poll`,
  `on_failure`, `can_retry`, `next_peer_kind`, `on_stop`.

  The handler's maps (`pending_reqs` per peer kind, `reqs` per outbound request id) are represented
  as one append-only list of per-request records (request id = position); an outbound request is
  identified by (request id, attempt number).  `sends` / `answers` count what has happened to a
  request so far.  Which eligible peer gets a request (a random shuffle in the code) is an input
  (`choice`).  Import-free.
-/
import Lumina.Model.Util

namespace Lumina.Model.Retry

/-- `PeerKind` -/
inductive Kind where
  | any | archival | trusted | trustedArchival
  deriving DecidableEq, Repr, Inhabited

structure Peer where
  connected : Bool
  trusted : Bool
  archival : Bool
  deriving DecidableEq, Repr, Inhabited

/-- the peer filter of `schedule_pending_requests_impl` -/
def kindOk (k : Kind) (p : Peer) : Bool :=
  match k with
  | .any => p.connected
  | .archival => p.connected && p.archival
  | .trusted => p.connected && p.trusted
  | .trustedArchival => p.connected && p.trusted && p.archival

inductive Phase where
  | pending      -- in `pending_reqs[kind]`
  | inflight     -- in `reqs[req_id]`
  | done         -- answered or dropped
  deriving DecidableEq, Repr, Inhabited

/-- what the caller can receive -/
inductive Answer where
  | ok | headerNotFound | invalidResponse | invalidRequest | outboundFailure | requestCancelled
  deriving DecidableEq, Repr, Inhabited

/-- outcome of an outbound request: `decode_and_verify_responses` result or an `OutboundFailure` -/
inductive Res where
  | ok | headerNotFound | invalidResponse | outboundFailure
  deriving DecidableEq, Repr, Inhabited

structure Rec where
  id : Nat
  kind : Kind
  triesLeft : Nat
  phase : Phase
  /-- the caller dropped its receiver -/
  closed : Bool
  /-- how many times the request has been sent -/
  sends : Nat
  /-- how many answers the caller has been sent -/
  answers : Nat
  deriving DecidableEq, Repr, Inhabited

structure State where
  recs : List Rec
  stopped : Bool
  deriving Repr

def init : State := { recs := [], stopped := false }

inductive Out where
  /-- request `id` sent (attempt number, kind it was queued under, tries left afterwards, recipient) -/
  | sent (id attempt : Nat) (kind : Kind) (triesLeft : Nat) (to : Peer)
  | answer (id : Nat) (a : Answer)
  deriving DecidableEq, Repr

inductive Ev where
  | request (valid : Bool)                              -- `on_send_request` (non-HEAD)
  | schedule (peers : List Peer) (choice : Nat → Nat)   -- `schedule_pending_requests`
  | outcome (id attempt : Nat) (res : Res)              -- response decoded / outbound failure
  | close (id : Nat)                                    -- caller dropped the receiver
  | stop                                                -- `on_stop`

/-- `can_retry` (for a non-HEAD request) -/
def canRetry (r : Rec) (e : Res) : Bool :=
  if r.triesLeft = 0 || r.closed then false
  else match e with
    | .headerNotFound | .invalidResponse | .outboundFailure => true
    | .ok => false

/-- `next_peer_kind`: the last try always reaches archival nodes -/
def nextKind (r : Rec) : Kind :=
  if r.triesLeft = 1 then
    match r.kind with
    | .any => .archival
    | .trusted => .trustedArchival
    | k => k
  else r.kind

def answerOf : Res → Answer
  | .ok => .ok
  | .headerNotFound => .headerNotFound
  | .invalidResponse => .invalidResponse
  | .outboundFailure => .outboundFailure

/-- send an answer to the caller: nothing observable when the receiver is gone -/
def finish (r : Rec) (a : Answer) : Rec × List Out :=
  if r.closed then ({ r with phase := .done }, [])
  else ({ r with phase := .done, answers := r.answers + 1 }, [.answer r.id a])

/-- the effect of one event on one request record -/
def stepRec (ev : Ev) (r : Rec) : Rec × List Out :=
  match ev with
  | .request _ => (r, [])
  | .schedule peers choice =>
    if r.phase = .pending then
      -- shuffle + truncate(MAX_PEERS) + `peers[i % len]`: any eligible peer may be picked
      let elig := peers.filter (kindOk r.kind)
      match elig[choice r.id % elig.length]? with
      | none => (r, [])                                   -- no peer of this kind: stays pending
      | some p =>
        if r.closed then ({ r with phase := .done }, [])  -- `.filter(|s| !s.respond_to.is_closed())`
        else
          ({ r with phase := .inflight, triesLeft := r.triesLeft - 1, sends := r.sends + 1 },
           [.sent r.id (r.sends + 1) r.kind (r.triesLeft - 1) p])
    else (r, [])
  | .outcome id attempt res =>
    if r.id = id ∧ r.phase = .inflight ∧ r.sends = attempt then
      if canRetry r res then ({ r with phase := .pending, kind := nextKind r }, [])
      else finish r (answerOf res)
    else (r, [])
  | .close id => if r.id = id then ({ r with closed := true }, []) else (r, [])
  | .stop => if r.phase = .done then (r, []) else finish r .requestCancelled

def MAX_TRIES : Nat := 3

/-- a new record for `on_send_request` -/
def newRec (s : State) (valid : Bool) : Rec × List Out :=
  let r : Rec := { id := s.recs.length, kind := .any, triesLeft := MAX_TRIES, phase := .pending,
                   closed := false, sends := 0, answers := 0 }
  if s.stopped then finish r .requestCancelled
  else if !valid then finish r .invalidRequest
  else (r, [])

def step (s : State) (ev : Ev) : State × List Out :=
  let rs := s.recs.map (stepRec ev)
  let recs := rs.map (·.1)
  let outs := (rs.map (·.2)).flatten
  match ev with
  | .request valid =>
    let (r, o) := newRec s valid
    ({ s with recs := recs ++ [r] }, outs ++ o)
  | .stop => ({ recs := recs, stopped := true }, outs)
  | _ => ({ s with recs := recs }, outs)

def run (evs : List Ev) : State × List Out :=
  evs.foldl (fun (acc : State × List Out) ev => let (s', o) := step acc.1 ev; (s', acc.2 ++ o)) (init, [])

end Lumina.Model.Retry

/-
  Executable model of header chain verification (C02) and header validation (C01).

  Rust (types/src/extended_header.rs)                Lean
  -------------------------------------------------  ---------------------------
  ExtendedHeader::verify                             verify
  ExtendedHeader::verify_adjacent                    verifyAdjacent
  ExtendedHeader::verify_range                       verifyRange / verifyRangeFrom
  ExtendedHeader::verify_adjacent_range              verifyAdjacentRange
  node/src/store/utils.rs VerifiedExtendedHeaders::try_from(Vec)   verifiedTryFrom

  Inputs that are not modelled but passed in:
    * `now`  — what `Time::now()` returns (unix nanoseconds).  One value per call of the
      top-level function: the clock is idealised as not advancing inside one call.
    * `ok i j` — the signature oracle for trusting verification of the untrusted header's
      commit against the trusted header's validator set (see Model/Commit.lean); range
      verification takes one oracle per step (`oks step i j`).
    * hashes are opaque values (`Hash`): `verify*` never recomputes a hash, it only compares
      stored ones.

  No imports besides the import-free commit model (compiled into the driver).
-/
import Lumina.Model.Commit

namespace Lumina.Model.HeaderVerify
open Lumina.Model.Commit

/-- `tendermint::Hash`: `None` or 32 bytes -/
abbrev Hash := Option (List UInt8)

/-- the parts of an `ExtendedHeader` that `verify*` reads -/
structure Hdr where
  /-- `header.height` -/
  height : Nat
  /-- `header.chain_id` (UTF-8 bytes) -/
  chainId : List UInt8
  /-- `header.time`, unix nanoseconds -/
  time : Int
  /-- `header.validators_hash` -/
  validatorsHash : Hash
  /-- `header.next_validators_hash` -/
  nextValidatorsHash : Hash
  /-- `last_header_hash()` = `header.last_block_id.map(|id| id.hash).unwrap_or_default()` -/
  lastHeaderHash : Hash
  /-- `hash()` = `commit.block_id.hash` -/
  hash : Hash
  /-- `validator_set` -/
  valset : ValSet
  /-- `commit.signatures` -/
  sigs : List CSig
  deriving Repr, DecidableEq

inductive VErr where
  /-- "untrusted header height(..) <= current trusted header(..)" -/
  | heightNotGreater
  /-- "untrusted header has different chain" -/
  | chainId
  /-- "untrusted header time must be after current trusted header" -/
  | timeNotAfter
  /-- "new untrusted header has a time from the future" -/
  | timeFuture
  /-- "expected old header next validators to match those from new header" -/
  | nextValidators
  /-- "expected new header to point to last header hash" -/
  | lastHeaderHash
  /-- "untrusted header height not adjacent to the current trusted" -/
  | notAdjacent
  /-- error of `verify_commit_light_trusting` -/
  | commit (e : Err)
  deriving Repr, DecidableEq

inductive VOut where
  | ok
  | err (e : VErr)
  | panic
  deriving Repr, DecidableEq

abbrev Oracle := Nat → Nat → Bool

def ofCommit : Outcome → VOut
  | .ok => .ok
  | .err e => .err (.commit e)
  | .panic => .panic

/-- `ExtendedHeader::verify(&self = tr, untrusted = un)`; `drift` = `VERIFY_CLOCK_DRIFT` in ns,
    `(tn, td)` = `DEFAULT_TRUST_LEVEL` -/
def verify (ok : Oracle) (drift tn td : Nat) (now : Int) (tr un : Hdr) : VOut :=
  if un.height ≤ tr.height then .err .heightNotGreater
  else if un.chainId ≠ tr.chainId then .err .chainId
  else if ¬ (un.time > tr.time) then .err .timeNotAfter
  else if ¬ (un.time < now + (drift : Int)) then .err .timeFuture
  else if tr.height + 1 = un.height then
    if un.validatorsHash ≠ tr.nextValidatorsHash then .err .nextValidators
    else if un.lastHeaderHash ≠ tr.hash then .err .lastHeaderHash
    else .ok
  else ofCommit (verifyCommitLightTrusting ok tn td tr.valset un.sigs)

/-- `verify_adjacent` -/
def verifyAdjacent (ok : Oracle) (drift tn td : Nat) (now : Int) (tr un : Hdr) : VOut :=
  if tr.height + 1 ≠ un.height then .err .notAdjacent
  else verify ok drift tn td now tr un

/-- the loop of `verify_range` from step `i` (`for (i, untrusted) in untrusted.iter().enumerate()`) -/
def verifyRangeFrom (oks : Nat → Oracle) (drift tn td : Nat) (now : Int) : Nat → Hdr → List Hdr → VOut
  | _, _, [] => .ok
  | i, tr, un :: rest =>
    if i ≠ 0 ∧ tr.height + 1 ≠ un.height then .err .notAdjacent
    else match verify (oks i) drift tn td now tr un with
      | .ok => verifyRangeFrom oks drift tn td now (i + 1) un rest
      | e => e

/-- `verify_range` -/
def verifyRange (oks : Nat → Oracle) (drift tn td : Nat) (now : Int) (tr : Hdr) (l : List Hdr) : VOut :=
  verifyRangeFrom oks drift tn td now 0 tr l

/-- `verify_adjacent_range` -/
def verifyAdjacentRange (oks : Nat → Oracle) (drift tn td : Nat) (now : Int) (tr : Hdr) (l : List Hdr) : VOut :=
  match l with
  | [] => .ok
  | un :: _ =>
    if tr.height + 1 ≠ un.height then .err .notAdjacent
    else verifyRange oks drift tn td now tr l

/-- `VerifiedExtendedHeaders::try_from(Vec<ExtendedHeader>)` -/
def verifiedTryFrom (oks : Nat → Oracle) (drift tn td : Nat) (now : Int) (l : List Hdr) : VOut :=
  match l with
  | [] => .ok
  | head :: tail => verifyAdjacentRange oks drift tn td now head tail


/-! ## C01 — `ExtendedHeader::validate`

  Rust                                                        Lean
  ----------------------------------------------------------  ---------------------------
  types/src/block/header.rs  ValidateBasic for Header            headerValidateBasic
  types/src/block/commit.rs  ValidateBasic for Commit, is_zero   commitValidateBasic, BlockId.isZero
  types/src/validator_set.rs ValidateBasic for Set               Commit.valSetValidateBasic
  types/src/block/commit.rs  CommitExt::vote_sign_bytes          voteMsg (the signed content, not its encoding)
  types/src/data_availability_header.rs validate_basic           dahValidateBasic
  consts.rs AppVersion::from_u64 / max_extended_square_width     Consts.maxExtWidth?
  types/src/extended_header.rs ExtendedHeader::validate          validate

  Primitives that are parameters (`Prims`): the three hashes (`Header::hash`, `Set::hash`,
  `DataAvailabilityHeader::hash`) and signature verification.  The signature type `S` is generic:
  bytes in the driver, anything in theorems.
-/

abbrev Bytes := List UInt8

/-- `tendermint::block::Id` -/
structure BlockId where
  hash : Hash
  /-- `part_set_header.total` -/
  pst : Nat
  /-- `part_set_header.hash` -/
  psh : Hash
  deriving Repr, DecidableEq

/-- `is_zero` of types/src/block/commit.rs -/
def BlockId.isZero (b : BlockId) : Bool := b.hash.isNone && b.psh.isNone && b.pst == 0

/-- `block::Id::default()` -/
def BlockId.zero : BlockId := { hash := none, pst := 0, psh := none }

/-- `tendermint::block::Header` -/
structure HeaderF where
  versionBlock : Nat
  versionApp : Nat
  chainId : Bytes
  height : Nat
  time : Int
  lastBlockId : Option BlockId
  lastCommitHash : Option Hash
  dataHash : Option Hash
  validatorsHash : Hash
  nextValidatorsHash : Hash
  consensusHash : Hash
  appHash : Bytes
  lastResultsHash : Option Hash
  evidenceHash : Option Hash
  proposerAddress : Bytes
  deriving Repr, DecidableEq

/-- what `Header::hash` actually hashes: the optional fields go through `unwrap_or_default()` -/
def HeaderF.canon (h : HeaderF) : HeaderF :=
  { h with
    lastBlockId := some (h.lastBlockId.getD BlockId.zero)
    lastCommitHash := some (h.lastCommitHash.getD none)
    dataHash := some (h.dataHash.getD none)
    lastResultsHash := some (h.lastResultsHash.getD none)
    evidenceHash := some (h.evidenceHash.getD none) }

/-- `validator::Info` with its key -/
structure ValK where
  pk : Bytes
  addr : Addr
  power : Nat
  deriving Repr, DecidableEq

structure SetK where
  vals : List ValK
  total : Nat
  hasProposer : Bool
  deriving Repr, DecidableEq

def SetK.toValSet (s : SetK) : ValSet :=
  { vals := s.vals.map (fun v => { addr := v.addr, power := v.power }), total := s.total,
    hasProposer := s.hasProposer }

/-- what `Set::hash` hashes: `SimpleValidator { pub_key, voting_power }` per validator -/
def SetK.hashed (s : SetK) : List (Bytes × Nat) := s.vals.map (fun v => (v.pk, v.power))

/-- `CommitSig` with its data -/
structure EntryF (S : Type) where
  flag : Flag
  addr : Addr
  ts : Int
  sig : Option S
  deriving Repr, DecidableEq

def EntryF.toCSig {S : Type} (e : EntryF S) : CSig :=
  { flag := e.flag, addr := e.addr, hasSig := e.sig.isSome }

structure CommitF (S : Type) where
  height : Nat
  round : Nat
  blockId : BlockId
  sigs : List (EntryF S)
  deriving Repr, DecidableEq

structure DahF where
  rows : List Bytes
  cols : List Bytes
  deriving Repr, DecidableEq

structure ExtHeader (S : Type) where
  header : HeaderF
  commit : CommitF S
  valset : SetK
  dah : DahF
  deriving Repr, DecidableEq

/-- content of what a validator signs (`vote_sign_bytes` = tendermint `CanonicalVote`): vote type
    Precommit, commit height and round, `Some(block_id)`, the entry's timestamp, chain id.
    NOT part of it: the entry's validator address and the validator index (`Vote` carries them,
    `CanonicalVote::new` drops them). -/
structure VoteMsg where
  chainId : Bytes
  height : Nat
  round : Nat
  blockId : BlockId
  ts : Int
  deriving Repr, DecidableEq

structure Prims (S : Type) where
  hHeader : HeaderF → Hash
  hValset : List (Bytes × Nat) → Hash
  /-- Merkle root over `row_roots ++ column_roots` -/
  hDah : List Bytes → Hash
  sigValid : Bytes → VoteMsg → S → Bool

/-- constants of the source (regenerated into `Lumina.Gen.C01`) -/
structure Consts where
  blockProtocol : Nat
  maxChainIdLen : Nat
  genesisHeight : Nat
  minExtWidth : Nat
  /-- (app version, SQUARE_SIZE_UPPER_BOUND) for every supported version -/
  squareUpper : List (Nat × Nat)
  /-- `max_extended_square_width = square_size_upper_bound * extFactor` -/
  extFactor : Nat
  lightNum : Nat
  lightDen : Nat

/-- `AppVersion::from_u64(v).map(max_extended_square_width)` -/
def Consts.maxExtWidth? (c : Consts) (app : Nat) : Option Nat :=
  (c.squareUpper.lookup app).map (· * c.extFactor)

inductive ValErr where
  | versionBlock | chainIdLen | heightZero | genesisLastBlockId | missingLastBlockId
  | blockIdZero | noSignatures | commitSigNoSignature
  | validatorsEmpty | proposerNone
  | validatorsHash | dahHash | commitHeight | commitBlockIdHash
  | commit (e : Err)
  | unsupportedAppVersion (v : Nat)
  | dahColsRows | dahTooSmall | dahTooBig
  deriving Repr, DecidableEq

inductive ValOut where
  | ok
  | err (e : ValErr)
  | panic
  deriving Repr, DecidableEq

/-- `impl ValidateBasic for Header` -/
def headerValidateBasic (c : Consts) (h : HeaderF) : Option ValErr :=
  if h.versionBlock ≠ c.blockProtocol then some .versionBlock
  else if h.chainId.length > c.maxChainIdLen then some .chainIdLen
  else if h.height = 0 then some .heightZero
  else if h.height = c.genesisHeight ∧ h.lastBlockId.isSome then some .genesisLastBlockId
  else if h.height ≠ c.genesisHeight ∧ h.lastBlockId.isNone then some .missingLastBlockId
  else none

/-- `impl ValidateBasic for Commit` -/
def commitValidateBasic {S : Type} (c : Consts) (cm : CommitF S) : Option ValErr :=
  if cm.height ≥ c.genesisHeight then
    if cm.blockId.isZero then some .blockIdZero
    else if cm.sigs.isEmpty then some .noSignatures
    else if cm.sigs.all (fun e => commitSigValidateBasic e.toCSig) then none
    else some .commitSigNoSignature
  else none

def valSetValidateBasicE (s : SetK) : Option ValErr :=
  if s.vals.isEmpty then some .validatorsEmpty
  else if !s.hasProposer then some .proposerNone
  else none

/-- `ValidateBasicWithAppVersion for DataAvailabilityHeader` -/
def dahValidateBasic (minW maxW : Nat) (d : DahF) : Option ValErr :=
  if d.cols.length ≠ d.rows.length then some .dahColsRows
  else if d.rows.length < minW then some .dahTooSmall
  else if d.rows.length > maxW then some .dahTooBig
  else none

def voteMsg {S : Type} (eh : ExtHeader S) (e : EntryF S) : VoteMsg :=
  { chainId := eh.header.chainId, height := eh.commit.height, round := eh.commit.round,
    blockId := eh.commit.blockId, ts := e.ts }

/-- the signature oracle of light verification, spelled out: entry `j`'s signature under
    validator `i`'s key for entry `j`'s vote -/
def sigOracle {S : Type} (P : Prims S) (eh : ExtHeader S) : Nat → Nat → Bool :=
  fun i j =>
    match eh.valset.vals[i]?, eh.commit.sigs[j]? with
    | some v, some e =>
      (match e.sig with
       | some s => P.sigValid v.pk (voteMsg eh e) s
       | none => false)
    | _, _ => false

def commitOut : Outcome → ValOut
  | .ok => .ok
  | .err e => .err (.commit e)
  | .panic => .panic

/-- `ExtendedHeader::validate` -/
def validate {S : Type} (P : Prims S) (c : Consts) (eh : ExtHeader S) : ValOut :=
  match headerValidateBasic c eh.header with
  | some e => .err e
  | none =>
  match commitValidateBasic c eh.commit with
  | some e => .err e
  | none =>
  match valSetValidateBasicE eh.valset with
  | some e => .err e
  | none =>
  if P.hValset eh.valset.hashed ≠ eh.header.validatorsHash then .err .validatorsHash
  else if P.hDah (eh.dah.rows ++ eh.dah.cols) ≠ eh.header.dataHash.getD none then .err .dahHash
  else if eh.commit.height ≠ eh.header.height then .err .commitHeight
  else if eh.commit.blockId.hash ≠ P.hHeader eh.header.canon then .err .commitBlockIdHash
  else
  match commitOut (verifyCommitLight (sigOracle P eh) c.lightNum c.lightDen eh.valset.toValSet
          eh.header.height eh.commit.height (eh.commit.sigs.map EntryF.toCSig)) with
  | .ok =>
    (match c.maxExtWidth? eh.header.versionApp with
     | none => .err (.unsupportedAppVersion eh.header.versionApp)
     | some maxW =>
       match dahValidateBasic c.minExtWidth maxW eh.dah with
       | some e => .err e
       | none => .ok)
  | r => r

end Lumina.Model.HeaderVerify

/-
  Executable model of header chain verification (C02) and header validation (C01).

  Rust (types/src/extended_header.rs)                Lean
  -------------------------------------------------  ---------------------------
  ExtendedHeader::verify                             verify
  ExtendedHeader::verify_adjacent                    verifyAdjacent
  ExtendedHeader::verify_range                       verifyRange / verifyRangeFrom
  ExtendedHeader::verify_adjacent_range              verifyAdjacentRange
  node/src/store/utils.rs VerifiedExtendedHeaders::try_from(Vec)   verifiedTryFrom

  Inputs that are not modelled but passed in:
    * `now`  — what `Time::now()` returns (unix nanoseconds).  One value per call of the
      top-level function: the clock is idealised as not advancing inside one call.
    * `ok i j` — the signature oracle for trusting verification of the untrusted header's
      commit against the trusted header's validator set (see Model/Commit.lean); range
      verification takes one oracle per step (`oks step i j`).
    * hashes are opaque values (`Hash`): `verify*` never recomputes a hash, it only compares
      stored ones.

  No imports besides the import-free commit model (compiled into the driver).
-/
import Lumina.Model.Commit

namespace Lumina.Model.HeaderVerify
open Lumina.Model.Commit

/-- `tendermint::Hash`: `None` or 32 bytes -/
abbrev Hash := Option (List UInt8)

/-- the parts of an `ExtendedHeader` that `verify*` reads -/
structure Hdr where
  /-- `header.height` -/
  height : Nat
  /-- `header.chain_id` (UTF-8 bytes) -/
  chainId : List UInt8
  /-- `header.time`, unix nanoseconds -/
  time : Int
  /-- `header.validators_hash` -/
  validatorsHash : Hash
  /-- `header.next_validators_hash` -/
  nextValidatorsHash : Hash
  /-- `last_header_hash()` = `header.last_block_id.map(|id| id.hash).unwrap_or_default()` -/
  lastHeaderHash : Hash
  /-- `hash()` = `commit.block_id.hash` -/
  hash : Hash
  /-- `validator_set` -/
  valset : ValSet
  /-- `commit.signatures` -/
  sigs : List CSig
  deriving Repr, DecidableEq

inductive VErr where
  /-- "untrusted header height(..) <= current trusted header(..)" -/
  | heightNotGreater
  /-- "untrusted header has different chain" -/
  | chainId
  /-- "untrusted header time must be after current trusted header" -/
  | timeNotAfter
  /-- "new untrusted header has a time from the future" -/
  | timeFuture
  /-- "expected old header next validators to match those from new header" -/
  | nextValidators
  /-- "expected new header to point to last header hash" -/
  | lastHeaderHash
  /-- "untrusted header height not adjacent to the current trusted" -/
  | notAdjacent
  /-- error of `verify_commit_light_trusting` -/
  | commit (e : Err)
  deriving Repr, DecidableEq

inductive VOut where
  | ok
  | err (e : VErr)
  | panic
  deriving Repr, DecidableEq

abbrev Oracle := Nat → Nat → Bool

def ofCommit : Outcome → VOut
  | .ok => .ok
  | .err e => .err (.commit e)
  | .panic => .panic

/-- `ExtendedHeader::verify(&self = tr, untrusted = un)`; `drift` = `VERIFY_CLOCK_DRIFT` in ns,
    `(tn, td)` = `DEFAULT_TRUST_LEVEL` -/
def verify (ok : Oracle) (drift tn td : Nat) (now : Int) (tr un : Hdr) : VOut :=
  if un.height ≤ tr.height then .err .heightNotGreater
  else if un.chainId ≠ tr.chainId then .err .chainId
  else if ¬ (un.time > tr.time) then .err .timeNotAfter
  else if ¬ (un.time < now + (drift : Int)) then .err .timeFuture
  else if tr.height + 1 = un.height then
    if un.validatorsHash ≠ tr.nextValidatorsHash then .err .nextValidators
    else if un.lastHeaderHash ≠ tr.hash then .err .lastHeaderHash
    else .ok
  else ofCommit (verifyCommitLightTrusting ok tn td tr.valset un.sigs)

/-- `verify_adjacent` -/
def verifyAdjacent (ok : Oracle) (drift tn td : Nat) (now : Int) (tr un : Hdr) : VOut :=
  if tr.height + 1 ≠ un.height then .err .notAdjacent
  else verify ok drift tn td now tr un

/-- the loop of `verify_range` from step `i` (`for (i, untrusted) in untrusted.iter().enumerate()`) -/
def verifyRangeFrom (oks : Nat → Oracle) (drift tn td : Nat) (now : Int) : Nat → Hdr → List Hdr → VOut
  | _, _, [] => .ok
  | i, tr, un :: rest =>
    if i ≠ 0 ∧ tr.height + 1 ≠ un.height then .err .notAdjacent
    else match verify (oks i) drift tn td now tr un with
      | .ok => verifyRangeFrom oks drift tn td now (i + 1) un rest
      | e => e

/-- `verify_range` -/
def verifyRange (oks : Nat → Oracle) (drift tn td : Nat) (now : Int) (tr : Hdr) (l : List Hdr) : VOut :=
  verifyRangeFrom oks drift tn td now 0 tr l

/-- `verify_adjacent_range` -/
def verifyAdjacentRange (oks : Nat → Oracle) (drift tn td : Nat) (now : Int) (tr : Hdr) (l : List Hdr) : VOut :=
  match l with
  | [] => .ok
  | un :: _ =>
    if tr.height + 1 ≠ un.height then .err .notAdjacent
    else verifyRange oks drift tn td now tr l

/-- `VerifiedExtendedHeaders::try_from(Vec<ExtendedHeader>)` -/
def verifiedTryFrom (oks : Nat → Oracle) (drift tn td : Nat) (now : Int) (l : List Hdr) : VOut :=
  match l with
  | [] => .ok
  | head :: tail => verifyAdjacentRange oks drift tn td now head tail

end Lumina.Model.HeaderVerify

/-
  Executable model of `calculate_range_to_fetch` (`/repo/node/src/syncer.rs`), the pure part
  of `Worker::fetch_next_batch`: which header range the syncer requests next, given the
  subjective network head, the synced ranges (`pruned + stored`) and the batch size.

  Import-free apart from the `BlockRanges` model.  `+ 1` is debug-build `u64` addition
  (`addU64`: overflow = `Err.panic`).
-/
import Lumina.Model.Ranges

namespace Lumina.Model.FetchRange
open Lumina.Model.Ranges

def calculateRangeToFetch (subjectiveHeadHeight : Nat) (syncedHeaders : Ranges) (limit : Nat) :
    Res Range :=
  -- `synced_headers.iter().rev()`
  match syncedHeaders.reverse with
  | [] =>
    -- empty synced ranges, we're missing everything
    pure (Range.tailn (1, subjectiveHeadHeight) limit)
  | syncedHeadRange :: rest =>
    if syncedHeadRange.2 < subjectiveHeadHeight then do
      -- if we haven't caught up with the network head, start from there
      let s ← addU64 syncedHeadRange.2 1
      pure (Range.tailn (s, subjectiveHeadHeight) limit)
    else do
      -- there exists a range contiguous with network head. inspect previous range end
      let penultimateRangeEnd := match rest with
        | r :: _ => r.2
        | [] => 0
      let s ← addU64 penultimateRangeEnd 1
      pure (Range.headn (s, satSub syncedHeadRange.1 1) limit)

/-- `synced_ranges = pruned_ranges + &store_ranges` followed by `calculate_range_to_fetch`
    (the range computation of `Worker::fetch_next_batch`) -/
def nextBatch (subjectiveHeadHeight : Nat) (stored pruned : Ranges) (batchSize : Nat) : Res Range := do
  let synced ← add pruned stored
  calculateRangeToFetch subjectiveHeadHeight synced batchSize

end Lumina.Model.FetchRange

/-
  Model of `grpc/src/abci_proofs.rs` (`CommitmentOp`, `ProofChain::try_from`,
  `ProofChain::verify_membership`) and of `GrpcClient::get_verified_balance_impl`
  (`grpc/src/client.rs`).

  The ics23 membership check `ics23::verify_membership::<Sha256Provider>(proof, spec, root, key,
  value)` is the PARAMETER `vm`; the theorems hold for every `vm`, the driver instantiates it with
  `Ics23.verifyMembership` below (a transcription of ics23 0.12's top level: `get_exist_proof`,
  key/value equality, computed root equality) fed with the roots the real ics23 computes.

  Rust                                                   ↔ model
  ----------------------------------------------------------------------------------------------
  ics23::ExistenceProof {key, value, leaf, path}         ↔ ExistenceProof {key, value, calc}
       (`calc spec` = root computed by ics23 for that spec, `none` if the spec check / hashing fails)
  ics23::CommitmentProof.proof: Exist | Batch | Nonexist/Compressed/None ↔ CProof.exist | .batch | .other
  impl TryFrom<ProofOp> for CommitmentOp                 ↔ CommitmentOp.tryFrom
  CommitmentOp::get_existence_proof                      ↔ getExistenceProof
  impl TryFrom<ProofOps> for ProofChain                  ↔ ProofChain.tryFrom
  ProofChain::verify_membership                          ↔ verifyMembership (loop ↔ verifyLoop)
  GrpcClient::get_verified_balance_impl                  ↔ bankKey, queryHeight, getVerifiedBalance
-/
import Lumina.Model.Util

namespace Lumina.Model.AbciProofs
open Lumina.Util

inductive SpecKind where
  | iavl | simple
  deriving DecidableEq, Repr

structure ExistenceProof where
  key : Bytes
  value : Bytes
  /-- what ics23 computes for this proof: `(root under iavl_spec, root under tendermint_spec)`,
      `none` when `check_existence_spec` or the hashing fails for that spec -/
  calcIavl : Option Bytes
  calcSimple : Option Bytes
  deriving DecidableEq, Repr

def ExistenceProof.calc (e : ExistenceProof) : SpecKind → Option Bytes
  | .iavl => e.calcIavl
  | .simple => e.calcSimple

inductive BatchEntry where
  | exist (e : ExistenceProof)
  | other
  deriving DecidableEq, Repr

inductive CProof where
  | exist (e : ExistenceProof)
  | batch (es : List BatchEntry)
  /-- non-existence proof, compressed batch, or no proof at all -/
  | other
  deriving DecidableEq, Repr

structure CommitmentOp where
  key : Bytes
  spec : SpecKind
  proof : CProof
  deriving DecidableEq, Repr

inductive OpType where
  | iavl | simple | unsupported
  deriving DecidableEq, Repr

/-- `ProofOp { type, key, data }`; `data = none` when `CommitmentProof::decode` fails -/
structure RawOp where
  type : OpType
  key : Bytes
  data : Option CProof
  deriving DecidableEq, Repr

inductive ProofError where
  | rootMismatch
  | abciProofMissing
  | unsupportedSpec
  | decode
  | existanceProofMissing
  | unevenProofsAndKeysLengths (a b : Nat)
  | operationKeyMismatch
  deriving DecidableEq, Repr

/-- outcome of `verify_membership`: `panic` is the debug-build `current_idx - 1` underflow that
    an empty key list with a non-empty chain runs into -/
inductive Outcome (α : Type) where
  | ok (a : α)
  | err (e : ProofError)
  | panic
  deriving Repr

/-- `impl TryFrom<ProofOp> for CommitmentOp` -/
def CommitmentOp.tryFrom (op : RawOp) : Except ProofError CommitmentOp :=
  match op.type with
  | .unsupported => .error .unsupportedSpec
  | .iavl =>
    match op.data with
    | none => .error .decode
    | some p => .ok { key := op.key, spec := .iavl, proof := p }
  | .simple =>
    match op.data with
    | none => .error .decode
    | some p => .ok { key := op.key, spec := .simple, proof := p }

/-- the `find_map` over batch entries -/
def findExist (key : Bytes) : List BatchEntry → Option ExistenceProof
  | [] => none
  | .exist e :: rest => if key = e.key then some e else findExist key rest
  | .other :: rest => findExist key rest

/-- `CommitmentOp::get_existence_proof(key)`: a plain existence proof is returned whatever its
    key is; in a batch the first existence entry with that key -/
def getExistenceProof (op : CommitmentOp) (key : Bytes) : Option ExistenceProof :=
  match op.proof with
  | .exist e => some e
  | .batch es => findExist key es
  | .other => none

abbrev ProofChain := List CommitmentOp

def tryFromOps : List RawOp → Except ProofError (List CommitmentOp)
  | [] => .ok []
  | op :: rest =>
    match CommitmentOp.tryFrom op with
    | .error e => .error e
    | .ok c =>
      match tryFromOps rest with
      | .error e => .error e
      | .ok cs => .ok (c :: cs)

/-- `impl TryFrom<ProofOps> for ProofChain` -/
def ProofChain.tryFrom (ops : List RawOp) : Except ProofError ProofChain :=
  if ops.isEmpty then .error .abciProofMissing else tryFromOps ops

/-- the type of `ics23::verify_membership(proof, spec, root, key, value)` -/
abbrev VM := CProof → SpecKind → Bytes → Bytes → Bytes → Bool

/-- the `while let Some(key) = keys.next()` loop of `ProofChain::verify_membership` and the
    final "all proofs used" check -/
def verifyLoop (vm : VM) (chain : ProofChain) (root : Bytes) :
    List Bytes → Bytes → Nat → Outcome Unit
  | [], _, idx =>
    if chain[idx]?.isSome then
      (if idx = 0 then .panic else .err (.unevenProofsAndKeysLengths idx (idx - 1)))
    else .ok ()
  | key :: keys, currentLeaf, idx =>
    match chain[idx]? with
    | none => .err .existanceProofMissing
    | some proof =>
      if key ≠ proof.key then .err .operationKeyMismatch
      else if (getExistenceProof proof key).isNone then .err .existanceProofMissing
      else
        let currentRoot : Except ProofError Bytes :=
          match chain[idx + 1]? with
          | some nxt =>
            match getExistenceProof nxt key with
            | some e => .ok e.value
            | none => .error .existanceProofMissing
          | none =>
            if !keys.isEmpty then .error (.unevenProofsAndKeysLengths idx (idx + 1)) else .ok root
        match currentRoot with
        | .error e => .err e
        | .ok cr =>
          if !vm proof.proof proof.spec cr proof.key currentLeaf then .err .rootMismatch
          else verifyLoop vm chain root keys cr (idx + 1)

/-- `ProofChain::verify_membership(root, keys, leaf)` -/
def verifyMembership (vm : VM) (chain : ProofChain) (root : Bytes) (keys : List Bytes) (leaf : Bytes) :
    Outcome Unit :=
  verifyLoop vm chain root keys leaf 0

/-! ## ics23 0.12 `verify_membership`, top level (used by the driver as the concrete `vm`) -/

namespace Ics23

/-- ics23 `get_exist_proof` -/
def getExistProof (p : CProof) (key : Bytes) : Option ExistenceProof :=
  match p with
  | .exist e => some e
  | .batch es => findExist key es
  | .other => none

/-- `verify_membership` = `get_exist_proof` + `verify_existence` (spec check and root computation
    are the recorded `calc`) -/
def verifyMembership : VM := fun p spec root key value =>
  match getExistProof p key with
  | none => false
  | some e =>
    match e.calc spec with
    | none => false
    | some r => e.key == key && e.value == value && r == root

end Ics23

/-! ## `GrpcClient::get_verified_balance_impl` -/

/-- "utia" -/
def BOND_DENOM : Bytes := [117, 116, 105, 97]
/-- b"bank" -/
def BANK : Bytes := [98, 97, 110, 107]

/-- balances prefix 0x02, address length, address, denom -/
def bankKey (addr : Bytes) : Bytes :=
  [0x02, UInt8.ofNat addr.length] ++ addr ++ BOND_DENOM

/-- `1.max(header.height().saturating_sub(1))` -/
def queryHeight (headerHeight : Nat) : Nat := max 1 (headerHeight - 1)

structure AbciResponse where
  /-- `ErrorCode::Success` = 0 -/
  code : Nat
  value : Bytes
  /-- `proof_ops: Option<ProofOps>` -/
  proofOps : Option (List RawOp)
  deriving Repr

inductive BalErr where
  | grpc
  | abciQuery (code : Nat)
  | proof (e : ProofError)
  | failedToParseResponse
  deriving DecidableEq, Repr

def U64_MAX : Nat := 18446744073709551615

def digitsToNat : List UInt8 → Nat → Option Nat
  | [], acc => some acc
  | c :: rest, acc => if 48 ≤ c.toNat ∧ c.toNat ≤ 57 then digitsToNat rest (acc * 10 + (c.toNat - 48)) else none

/-- `std::str::from_utf8(..)?.parse::<u64>()`: optional `+`, at least one ASCII digit, no overflow
    (non-UTF-8 input contains a byte ≥ 0x80, which is not a digit, so it fails either way) -/
def parseU64 (bs : Bytes) : Option Nat :=
  let ds := match bs with
    | 43 :: rest => rest
    | _ => bs
  if ds.isEmpty then none
  else match digitsToNat ds 0 with
    | some n => if n ≤ U64_MAX then some n else none
    | none => none

/-- `get_verified_balance_impl` after the `abci_query` call (`resp = none`: the call failed) -/
def getVerifiedBalance (vm : VM) (addr appHash : Bytes) (resp : Option AbciResponse) :
    Outcome (Except BalErr Nat) :=
  match resp with
  | none => .ok (.error .grpc)
  | some r =>
    if r.code ≠ 0 then .ok (.error (.abciQuery r.code))
    -- "If account doesn't exist yet, just return 0"
    else if r.value.isEmpty then .ok (.ok 0)
    else
      match ProofChain.tryFrom (r.proofOps.getD []) with
      | .error e => .ok (.error (.proof e))
      | .ok chain =>
        match verifyMembership vm chain appHash [bankKey addr, BANK] r.value with
        | .panic => .panic
        | .err e => .ok (.error (.proof e))
        | .ok () =>
          match parseU64 r.value with
          | none => .ok (.error .failedToParseResponse)
          | some n => .ok (.ok n)

end Lumina.Model.AbciProofs

/-
  C42 — (1) the compound operations of the controlled harness (a current-thread runtime that is
  idle between ops) expressed as sequences of model steps; (2) acceptance of a concurrent trace
  as a run of the model (subset simulation over the hidden steps).  Import-free.
-/
import Lumina.Model.Tasks
import Lumina.Spec.C42

namespace Lumina.Model.Tasks

/-! ## controlled histories -/

structure Ctl where
  m : State
  /-- remaining script of every task's inner future (exhausted = pending for ever) -/
  scripts : List (List Beh)
  /-- tasks in the run queue -/
  woken : List Nat
  /-- tasks whose inner future stored a waker on its last poll -/
  wakers : List Nat
  down : Bool
  deriving Repr

def Ctl.init : Ctl := { m := Lumina.Model.Tasks.init, scripts := [], woken := [], wakers := [], down := false }

def insertSorted (x : Nat) : List Nat → List Nat
  | [] => [x]
  | y :: ys => if x < y then x :: y :: ys else if x == y then y :: ys else y :: insertSorted x ys

def alive (s : State) : List Nat :=
  (List.range s.tasks.length).filter (fun i => match s.tasks[i]? with
    | some t => !isEnded t.pc
    | none => false)

/-- one poll of task `i` by the runtime, followed (if the task ended) by the drop of its locals -/
def pollTask (c : Ctl) (i : Nat) : Ctl × Bool × Bool :=
  match step c.m (.begin i) with
  | none => (c, false, false)
  | some m1 =>
    match m1.tasks[i]? with
    | some t1 =>
      if t1.pc = .checked then
        let b := ((c.scripts[i]?.getD []).head?).getD .pending
        let scripts := c.scripts.set i ((c.scripts[i]?.getD []).drop 1)
        match step m1 (.inner i b) with
        | some m2 =>
          if b = .pending then
            ({ c with m := m2, scripts := scripts, wakers := insertSorted i c.wakers }, true, false)
          else
            let m3 := (step m2 (.dropGuard i)).getD m2
            ({ c with m := m3, scripts := scripts, wakers := c.wakers.filter (· != i) }, true, true)
        | none => (c, false, false)
      else
        -- ended by cancellation
        let m3 := (step m1 (.dropGuard i)).getD m1
        ({ c with m := m3, wakers := c.wakers.filter (· != i) }, false, true)
    | none => (c, false, false)

/-- run the scheduler until idle: every queued task is polled once -/
def tick (c : Ctl) : Ctl × List Nat × List Nat :=
  let rec go (c : Ctl) (polled dropped : List Nat) : List Nat → Ctl × List Nat × List Nat
    | [] => (c, polled, dropped)
    | i :: is =>
      let (c', p, d) := pollTask c i
      go c' (if p then polled ++ [i] else polled) (if d then dropped ++ [i] else dropped) is
  let (c', p, d) := go { c with woken := [] } [] [] c.woken
  (c', p, d)

def cancelTok (c : Ctl) (tok : Nat) : Ctl :=
  let m' := (step c.m (.cancel tok)).getD c.m
  let toWake := (alive c.m).filter (fun i => match c.m.tasks[i]? with
    | some t => t.cancellable && t.tok == tok
    | none => false)
  { c with m := m', woken := toWake.foldl (fun acc i => insertSorted i acc) c.woken }

def shutdown (c : Ctl) : Ctl × List Nat :=
  let victims := alive c.m
  let m' := victims.foldl (fun m i =>
    let m1 := (step m (.abort i)).getD m
    (step m1 (.dropGuard i)).getD m1) c.m
  ({ c with m := m', woken := [], wakers := [], down := true }, victims)

/-! ## concurrent traces -/

inductive Vis where
  | spawn (i : Nat) (c : Bool) (tok : Nat)
  | poll (i : Nat) (b : Beh)
  | dropped (i : Nat)
  | cancelBegin (tok : Nat)
  | cancelDone (tok : Nat)
  | joined (i : Nat)
  deriving DecidableEq, Repr

structure TS where
  m : State
  dropSeen : List Nat
  cancelOpen : List Nat
  deriving DecidableEq, Repr

def hiddenSucc (t : TS) : List TS :=
  let n := t.m.tasks.length
  let begins := (List.range n).flatMap (fun i => (step t.m (.begin i)).toList.map (fun m' => { t with m := m' }))
  let drops := t.dropSeen.flatMap (fun i => (step t.m (.dropGuard i)).toList.map (fun m' => { t with m := m' }))
  let cancels := t.cancelOpen.flatMap (fun tok =>
    if t.m.cancelled.contains tok then [] else (step t.m (.cancel tok)).toList.map (fun m' => { t with m := m' }))
  begins ++ drops ++ cancels

def visStep (t : TS) : Vis → Option TS
  | .spawn i c tok =>
    if i == t.m.tasks.length then (step t.m (.spawn c tok)).map (fun m' => { t with m := m' }) else none
  | .poll i b => (step t.m (.inner i b)).map (fun m' => { t with m := m' })
  | .dropped i =>
    match t.m.tasks[i]? with
    | some tk => if isEnded tk.pc && !t.dropSeen.contains i then some { t with dropSeen := i :: t.dropSeen } else none
    | none => none
  | .cancelBegin tok => some { t with cancelOpen := tok :: t.cancelOpen }
  | .cancelDone tok => if t.m.cancelled.contains tok then some t else none
  | .joined i => if joinResolves t.m i then some t else none

def insertAll (acc : List TS) : List TS → List TS × List TS
  | [] => (acc, [])
  | x :: xs =>
    if acc.contains x then insertAll acc xs
    else
      let (acc', fresh) := insertAll (x :: acc) xs
      (acc', x :: fresh)

def closure (fuel : Nat) (acc frontier : List TS) : List TS :=
  match fuel with
  | 0 => acc
  | fuel + 1 =>
    if frontier.isEmpty then acc
    else
      let (acc', fresh) := insertAll acc (frontier.flatMap hiddenSucc)
      closure fuel acc' fresh

def closeSet (ts : List TS) : List TS :=
  let (acc, fresh) := insertAll [] ts
  closure 64 acc fresh

def accStates : List Vis → List TS → List TS
  | [], cur => cur
  | v :: vs, cur => accStates vs (closeSet (cur.filterMap (fun t => visStep t v)))

def traceStates (tr : List Vis) : List TS :=
  accStates tr [{ m := init, dropSeen := [], cancelOpen := [] }]

open Lumina.Spec.C42 (Ev) in
def toEv : Vis → Option Ev
  | .spawn i c tok => some (.spawn i c tok)
  | .poll i _ => some (.poll i)
  | .dropped i => some (.ended i)
  | .cancelBegin _ => none
  | .cancelDone tok => some (.cancelDone tok)
  | .joined i => some (.joined i)

/-! ## the events an observer of a run sees (used by `Props/C42.lean`: model ⊨ spec) -/

open Lumina.Spec.C42 (Ev) in
/-- events emitted by one model step, in the spec's vocabulary.  A joiner awaiting the handle is
    taken to return as soon as the token is triggered (the earliest it can). -/
def evOf (s : State) : Label → List Ev
  | .spawn c tok => [.spawn s.tasks.length c tok]
  | .begin i =>
    match s.tasks[i]? with
    | some t => if t.pc = .ready ∧ isCancelled s t = true then [.ended i] else []
    | none => []
  | .inner i b => if b = .pending then [.poll i] else [.poll i, .ended i]
  | .abort i => [.ended i]
  | .dropGuard i => [.joined i]
  | .cancel tok => [.cancelDone tok]

open Lumina.Spec.C42 (Ev) in
def traceOf (s : State) : List Label → Option (State × List Ev)
  | [] => some (s, [])
  | l :: ls =>
    match step s l with
    | none => none
    | some s1 =>
      match traceOf s1 ls with
      | none => none
      | some (s2, tr) => some (s2, evOf s l ++ tr)

end Lumina.Model.Tasks

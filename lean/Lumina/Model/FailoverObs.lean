/-
  C44 — glue between the model's vocabulary and the spec's vocabulary (import-free).
-/
import Lumina.Model.Failover
import Lumina.Spec.C44

namespace Lumina.Model.Failover
open Lumina.Spec.C44 (Ans Res CallObs)

def toAns : Outcome → Ans
  | .ok => .ok
  | .badPayload => .badPayload
  | .status c => .status c
  | .transport => .transport

def toRes : Result → Option Res
  | .ok e => some (.ok e)
  | .parseErr e => some (.parseErr e)
  | .err code src => some (.err code src)
  | .panicked => none

/-- what an observer sees of a call that finishes with the step `respond c o`: everything the
    caller `k` tried before, plus the last request and its answer -/
def finalTried (k : Caller) (o : Outcome) : List (Ep × Outcome) :=
  k.tried ++ [(k.snapshot[k.idx]?.getD 0, o)]

def obsOf (k : Caller) (o : Outcome) (r : Res) : CallObs :=
  { tried := (finalTried k o).map (fun p => (p.1, toAns p.2)), result := r }

/-- ghost bookkeeping along a run: the endpoint of the most recent success that had failed over
    (position > 0 in its snapshot, i.e. the call tried more than one endpoint) -/
def lfStep (s : State) (l : Label) (lf : Option Ep) : Option Ep :=
  match l with
  | .respond c o =>
    if o = .ok ∨ o = .badPayload then
      match lookup s.callers c with
      | some k => if k.idx > 0 then (match k.snapshot[k.idx]? with | some e => some e | none => lf) else lf
      | none => lf
    else lf
  | _ => lf

def runLF (s : State) (lf : Option Ep) : List Label → Option (State × Option Ep)
  | [] => some (s, lf)
  | l :: ls =>
    match step s l with
    | some (s1, _) => runLF s1 (lfStep s l lf) ls
    | none => none

end Lumina.Model.Failover

/-
  Model of `P2p::get_verified_headers_range` (node/src/p2p.rs) on top of the session model
  (Model/Session.lean) and of a simulated header-ex client that answers like the real one
  (Model/HeaderExClient.lean: `is_valid` gate, then `decode_and_verify_responses` on what a peer
  holding heights `1..=chainLen` of one chain sends) — import-free.

  Rust                                             Lean
  ----------------------------------------------   -----------------------------
  `from.validate()`                                oracle bit `fromValid`
  `from.height() + 1`, `height + amount - 1`       checked adds (`.panic`) before the fix;
                                                   `amount == 0` early return + `checked_add` after
  `HeaderSession::new(range, ..).run()`            `Session.init` + `drive` (scheduler + peers = `Net`)
  `from.verify_adjacent_range(&headers)`           `verifyAdjacentRange` (heights adjacent; the
                                                   cryptographic part is the oracle bit `sameChain`)

  A hang (the session retrying for ever) is made observable by a step budget `fuel`, exactly as
  in the harness: outcome `.hang` = not finished after `fuel` answered requests.
-/
import Lumina.Model.Session
import Lumina.Model.HeaderExClient

namespace Lumina.Model.HeaderRange
open Lumina.Model.Session (State Ev Cfg step init result)
open Lumina.Model.HeaderExClient (Hdr Resp Request Err isValid decodeAndVerifyG Outcome)

def U64_MAX : Nat := 18446744073709551615

/-- `MAX_HEADERS_AMOUNT_RESPONSE`-like cap of the simulated peer -/
def PEER_CAP : Nat := 512

/-- the header of the (single) simulated chain at height `x` -/
def chainHdr (x : Nat) : Hdr := { height := x, hash := [0, x], id := x }

/-- per-answer behaviour of the simulated peer -/
inductive Beh where
  | full                 -- every requested header it has (up to `PEER_CAP`)
  | atMost (k : Nat)     -- at most `k` of them
  | notFound             -- a single NOT_FOUND entry
  | invalid              -- a single INVALID entry
  /-- (S9) the task completes with `Ok(vec![])`: an empty but successful response.  The real
      client never produces it (`decode_and_verify_responses` turns an empty answer into
      `InvalidResponse`); `HeaderSession::run` nevertheless has a path for it (nothing stored,
      the whole request rescheduled), which only a foreign client / mock can reach. -/
  | emptyOk
  /-- (S9) the responder is dropped without an answer (the worker died): `rx.await?` gives a
      non-HeaderEx `P2pError`, `run` returns it at once -/
  | dropped
  deriving DecidableEq, Repr

/-- the peer delivers at least one of the requested headers it holds -/
def Beh.progressing : Beh → Bool
  | .full => true
  | .atMost k => decide (1 ≤ k)
  | _ => false

/-- the behaviour is one of the header-ex client's (a peer's answer run through `is_valid` and
    `decode_and_verify_responses`), not one of the two S9 additions that bypass the client -/
def Beh.ofClient : Beh → Bool
  | .emptyOk => false
  | .dropped => false
  | _ => true

structure Net where
  /-- the peers hold heights `1..=chainLen` -/
  chainLen : Nat
  /-- which outstanding request is answered next (index pattern, cycled, taken modulo the
      number of outstanding requests) -/
  order : List Nat
  /-- behaviour pattern, cycled -/
  beh : List Beh
  deriving Repr

def cyc {β : Type} (l : List β) (j : Nat) (d : β) : β :=
  if l.length = 0 then d else l.getD (j % l.length) d

/-- what the peer sends for `(h, a)` -/
def peerResps (net : Net) (b : Beh) (h a : Nat) : List Resp :=
  let avail := if 1 ≤ h ∧ h ≤ net.chainLen then min (min a PEER_CAP) (net.chainLen - h + 1) else 0
  let notFound : List Resp := [{ status := 2, decoded := none }]
  match b with
  | .notFound => notFound
  | .invalid => [{ status := 0, decoded := none }]
  | .emptyOk => []     -- not consulted: `answer` bypasses the client
  | .dropped => []     -- not consulted
  | .full => if avail = 0 then notFound
      else (List.range' h avail).map (fun x => { status := 1, decoded := some (chainHdr x) })
  | .atMost k => if min avail k = 0 then notFound
      else (List.range' h (min avail k)).map (fun x => { status := 1, decoded := some (chainHdr x) })

/-- the simulated client: `on_send_request`'s `is_valid` gate, then acceptance of the peer's
    answer (`fixedClient`: which version of `decode_and_verify_responses`) -/
def clientAnswer (hashSize : Nat) (fixedClient : Bool) (net : Net) (b : Beh) (h a : Nat) : Outcome :=
  let req : Request := { data := .origin h, amount := a }
  if !isValid hashSize req then .err .invalidRequest
  else decodeAndVerifyG fixedClient req (peerResps net b h a)

/-- how the task of request `(h, a)` completes: `none` = a non-HeaderEx error (responder dropped),
    `some o` = `Ok(headers)` / `Err(P2pError::HeaderEx(_))` as `o` says -/
def answer (hashSize : Nat) (fixedClient : Bool) (net : Net) (b : Beh) (h a : Nat) : Option Outcome :=
  match b with
  | .dropped => none
  | .emptyOk => some (.ok [])
  | _ => some (clientAnswer hashSize fixedClient net b h a)

inductive Out where
  | ok (hs : List Hdr) (steps : Nat)
  | err (e : String) (steps : Nat)
  | panic
  | hang
  deriving DecidableEq, Repr

inductive Driven where
  | done (s : State Hdr) (steps : Nat)
  | panic
  | hang

/-- the session's `run()` against the simulated network -/
def drive (hashSize : Nat) (fixedClient : Bool) (net : Net) : Nat → Nat → State Hdr → Driven
  | 0, j, s => if s.status ≠ .running ∨ s.tasks.isEmpty then .done s j else .hang
  | fuel + 1, j, s =>
    if s.status ≠ .running ∨ s.tasks.isEmpty then .done s j
    else
      let idx := (cyc net.order j 0) % s.tasks.length
      let t := s.tasks.getD idx (0, 0)
      match answer hashSize fixedClient net (cyc net.beh j .full) t.1 t.2 with
      | some (.ok hs) => drive hashSize fixedClient net fuel (j + 1) (step s (.ok t.1 t.2 hs))
      | some (.err _) => drive hashSize fixedClient net fuel (j + 1) (step s (.err t.1 t.2))
      | some .panic => .panic
      | none => drive hashSize fixedClient net fuel (j + 1) (step s (.fatal t.1 t.2))

/-- `ExtendedHeader::verify_adjacent_range`: empty is fine; otherwise the first header follows
    `from`, heights are consecutive, and every link verifies (`sameChain`) -/
def verifyAdjacentRange (fromHeight : Nat) (sameChain : Bool) (hs : List Hdr) : Bool :=
  match hs with
  | [] => true
  | _ => (hs.map (·.height) == List.range' (fromHeight + 1) hs.length) && sameChain

structure Input where
  fromValid : Bool
  fromHeight : Nat
  /-- `from` belongs to the chain the peers serve -/
  sameChain : Bool
  amount : Nat
  net : Net
  fuel : Nat
  deriving Repr

/-- `fixed = false`: the code before the `fix:` commit -/
def getVerifiedHeadersRangeG (fixed fixedClient : Bool) (c : Cfg) (hashSize : Nat) (i : Input) : Out :=
  if !i.fromValid then .err "InvalidRequest" 0
  else if fixed && i.amount == 0 then .ok [] 0
  else if U64_MAX < i.fromHeight + 1 then .panic                 -- `from.height() + 1`
  else
    let height := i.fromHeight + 1
    let last? : Option (Option Nat) :=
      if fixed then
        -- `height.checked_add(amount - 1).ok_or(InvalidRequest)?`
        if U64_MAX < height + (i.amount - 1) then some none else some (some (height + (i.amount - 1)))
      else
        -- `height + amount - 1`
        if U64_MAX < height + i.amount then none else some (some (height + i.amount - 1))
    match last? with
    | none => .panic
    | some none => .err "InvalidRequest" 0
    | some (some last) =>
      let s0 : State Hdr := init c (height, last)
      if s0.status = .panicked then .panic
      else match drive hashSize fixedClient i.net i.fuel 0 s0 with
        | .panic => .panic
        | .hang => .hang
        | .done s steps =>
          match s.status with
          | .panicked => .panic
          | .failed => .err "Fatal" steps
          | .running =>
            let hs := result (·.height) s
            if verifyAdjacentRange i.fromHeight i.sameChain hs then .ok hs steps
            else .err "InvalidResponse" steps

end Lumina.Model.HeaderRange

/-
  Blob share commitments.

  Transcribes `Commitment::{from_blob, from_shares}`, `subtree_width`, `blob_min_square_size`,
  `merkle_mountain_range_sizes`, `round_up_to_power_of_2`, `round_down_to_power_of_2`
  (/repo/types/src/blob/commitment.rs), `appconsts::subtree_root_threshold` (consts.rs) and
  `Blob::{validate, validate_with_commitment}` (blob.rs), over the blob/share model (`Model/Blob.lean`),
  the simple merkle tree (`Model/Merkle.lean`) and group D's NMT model (`Model/Nmt.lean`).

  The Lean model computes real bytes (SHA-256 of `Model/Sha256.lean` in the driver): it is the
  independent implementation the property asks the commitment to be compared with.
-/
import Lumina.Gen.C12
import Lumina.Model.Blob
import Lumina.Model.Merkle
import Lumina.Model.Nmt

namespace Lumina.Model.Commitment
open Lumina.Util Lumina.Gen.C12
open Lumina.Model.Blob (Blob Share Err)

/-- `appconsts::subtree_root_threshold(app_version)`: the `match` table resolved through the per-version
    constants; `none` for an unknown app version (not constructible in Rust) -/
def subtreeRootThreshold (appVersion : Nat) : Option Nat :=
  match SUBTREE_ROOT_THRESHOLD_TABLE.find? (fun e => e.1 == appVersion) with
  | none => none
  | some (_, m) => (SUBTREE_ROOT_THRESHOLDS.find? (fun e => e.1 == m)).map (·.2)

/-- loop of `round_up_to_power_of_2`: doubling from `po2` until `po2 >= x` (`checked_shl(1)` never
    returns `None`; fuel 64 covers every `x ≤ 2^63`) -/
def roundUpGo (x : Nat) : Nat → Nat → Nat
  | 0, po2 => po2
  | f + 1, po2 => if po2 ≥ x then po2 else roundUpGo x f (po2 * 2)

/-- `round_up_to_power_of_2(x)` -/
def roundUpToPowerOf2 (x : Nat) : Nat := roundUpGo x 64 1

/-- `round_down_to_power_of_2(x)` (x non-zero) -/
def roundDownToPowerOf2 (x : Nat) : Nat :=
  let po2 := roundUpToPowerOf2 x
  if po2 = x then x else po2 / 2

/-- `(share_count as f64).sqrt().ceil() as u64`: the least `s` with `s * s ≥ n` (exact below 2^52) -/
def ceilSqrt (n : Nat) : Nat :=
  let r := Nat.sqrt n
  if r * r = n then r else r + 1

/-- `blob_min_square_size(share_count)` -/
def blobMinSquareSize (shareCount : Nat) : Nat := roundUpToPowerOf2 (ceilSqrt shareCount)

/-- `subtree_width(share_count, subtree_root_threshold)` -/
def subtreeWidth (shareCount threshold : Nat) : Nat :=
  let s := shareCount / threshold
  let s := if shareCount % threshold ≠ 0 then s + 1 else s
  let s := roundUpToPowerOf2 s
  min s (blobMinSquareSize shareCount)

/-- `merkle_mountain_range_sizes(total_size, max_tree_size)` (fuel = total size: every round removes
    at least one) -/
def mmrGo (maxTreeSize : Nat) : Nat → Nat → List Nat
  | 0, _ => []
  | f + 1, total =>
    if total = 0 then []
    else if total ≥ maxTreeSize then maxTreeSize :: mmrGo maxTreeSize f (total - maxTreeSize)
    else
      let t := roundDownToPowerOf2 total
      t :: mmrGo maxTreeSize f (total - t)

def merkleMountainRangeSizes (totalSize maxTreeSize : Nat) : List Nat := mmrGo maxTreeSize totalSize totalSize

/-- the `for size in tree_sizes { split_at(size) }` loop -/
def splitBySizes {α : Type} : List Nat → List α → List (List α)
  | [], _ => []
  | s :: ss, l => l.take s :: splitBySizes ss (l.drop s)

inductive CErr where
  | blob (e : Err)
  | nmt                     -- `Error::Nmt` / nmt-rs panic (cannot happen: all leaves share one namespace)
  | unknownAppVersion
  deriving DecidableEq, Repr

def CErr.kind : CErr → String
  | .blob e => e.kind
  | .nmt => "Nmt"
  | .unknownAppVersion => "UnknownAppVersion"

/-- root of the NMT (hasher with `ignore_max_ns = true`) over one leaf set, every leaf pushed under the
    blob's namespace; as the 90 bytes of `to_array()` -/
def subtreeRoot (h : Nmt.HashFn) (ns : Bytes) (leaves : List Bytes) : Except CErr Bytes :=
  match Nmt.computeRoot h true (leaves.map (Nmt.hashLeaf h ns)) with
  | .ok r => .ok r.toBytes
  | .error _ => .error .nmt

def subtreeRoots (h : Nmt.HashFn) (ns : Bytes) : List (List Bytes) → Except CErr (List Bytes)
  | [] => .ok []
  | l :: ls =>
    match subtreeRoot h ns l with
    | .error e => .error e
    | .ok r =>
      match subtreeRoots h ns ls with
      | .error e => .error e
      | .ok rs => .ok (r :: rs)

/-- `Commitment::from_shares(namespace, shares, app_version)` -/
def fromShares {D : Type} (H : Merkle.HashFns D) (h : Nmt.HashFn) (ns : Bytes) (shares : List Bytes)
    (appVersion : Nat) : Except CErr D :=
  match subtreeRootThreshold appVersion with
  | none => .error .unknownAppVersion
  | some threshold =>
    let width := subtreeWidth shares.length threshold
    let sizes := merkleMountainRangeSizes shares.length width
    match subtreeRoots h ns (splitBySizes sizes shares) with
    | .error e => .error e
    | .ok roots => .ok (Merkle.root H roots)

/-- `Commitment::from_blob(namespace, data, share_version, signer, app_version)` -/
def fromBlob {D : Type} (H : Merkle.HashFns D) (h : Nmt.HashFn) (ns data : Bytes) (shareVersion : Nat)
    (signer : Option Bytes) (appVersion : Nat) : Except CErr D :=
  match Blob.validateBlob shareVersion signer.isSome appVersion with
  | .error e => .error (.blob e)
  | .ok () =>
    match Blob.splitBlobToShares ns shareVersion data signer with
    | .error e => .error (.blob e)
    | .ok shares => fromShares H h ns (shares.map (·.data)) appVersion

inductive ValidateRes where
  | ok
  | mismatch               -- "blob commitment != localy computed commitment"
  | err (e : CErr)
  deriving DecidableEq, Repr

/-- `Blob::validate(app_version)` for a blob carrying `stored` as its commitment -/
def validate {D : Type} [DecidableEq D] (H : Merkle.HashFns D) (h : Nmt.HashFn) (b : Blob) (stored : D)
    (appVersion : Nat) : ValidateRes :=
  match fromBlob H h b.ns b.data b.shareVersion b.signer appVersion with
  | .error e => .err e
  | .ok c => if stored ≠ c then .mismatch else .ok

end Lumina.Model.Commitment

/-
  The header-verification model's data in the vocabulary of the C02 spec.  Import-free.
-/
import Lumina.Model.HeaderVerify
import Lumina.Model.CommitBridge
import Lumina.Spec.C02
import Lumina.Spec.C01

namespace Lumina.Model.HeaderVerify
open Lumina.Model.Commit

def toH (h : Hdr) : Lumina.Spec.C02.H :=
  { height := h.height
    chainId := h.chainId
    time := h.time
    hash := h.hash
    parentHash := h.lastHeaderHash
    validatorsHash := h.validatorsHash
    nextValidatorsHash := h.nextValidatorsHash
    powers := h.valset.vals.map (·.power)
    vaddrs := h.valset.vals.map (·.addr)
    entries := h.sigs.map toEntry }

end Lumina.Model.HeaderVerify

namespace Lumina.Model.HeaderVerify
open Lumina.Model.Commit

/-- the C01 spec's view of an extended header, hashes computed with `P` -/
def toView {S : Type} (P : Prims S) (eh : ExtHeader S) : Lumina.Spec.C01.View :=
  { versionBlock := eh.header.versionBlock
    versionApp := eh.header.versionApp
    chainIdLen := eh.header.chainId.length
    height := eh.header.height
    hasLastBlockId := eh.header.lastBlockId.isSome
    validatorsHash := eh.header.validatorsHash
    dataHash := eh.header.dataHash.getD none
    commitHeight := eh.commit.height
    commitBlockHash := eh.commit.blockId.hash
    commitBlockIdZero := eh.commit.blockId.isZero
    entriesHaveSig := eh.commit.sigs.all (fun e => commitSigValidateBasic e.toCSig)
    entries := (eh.commit.sigs.map EntryF.toCSig).map toEntry
    powers := eh.valset.toValSet.vals.map (·.power)
    vaddrs := eh.valset.toValSet.vals.map (·.addr)
    storedTotal := eh.valset.total
    hasProposer := eh.valset.hasProposer
    rowCount := eh.dah.rows.length
    colCount := eh.dah.cols.length
    headerHash := P.hHeader eh.header.canon
    valsetHash := P.hValset eh.valset.hashed
    dahHash := P.hDah (eh.dah.rows ++ eh.dah.cols) }

end Lumina.Model.HeaderVerify

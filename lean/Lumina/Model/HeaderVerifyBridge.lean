/-
  The header-verification model's data in the vocabulary of the C02 spec.  Import-free.
-/
import Lumina.Model.HeaderVerify
import Lumina.Model.CommitBridge
import Lumina.Spec.C02

namespace Lumina.Model.HeaderVerify
open Lumina.Model.Commit

def toH (h : Hdr) : Lumina.Spec.C02.H :=
  { height := h.height
    chainId := h.chainId
    time := h.time
    hash := h.hash
    parentHash := h.lastHeaderHash
    validatorsHash := h.validatorsHash
    nextValidatorsHash := h.nextValidatorsHash
    powers := h.valset.vals.map (·.power)
    vaddrs := h.valset.vals.map (·.addr)
    entries := h.sigs.map toEntry }

end Lumina.Model.HeaderVerify

/-
  C22 — crash semantics of the persistent store.

  What is modelled (node/src/store/redb_store.rs):

    RedbStore::write_tx(f)      writeTx   `begin_write` gives the closure a working copy of the last
                                          committed state; `Ok` ⇒ `commit`, `Err` ⇒ `abort`.
    every mutating Store op     ONE call of `writeTx` (insert, update_sampling_metadata,
                                          mark_as_sampled, remove_height, and the schema / identity
                                          initialisation inside `RedbStore::new`)
    a history                   runDisk   ops executed one after the other, each returning before
                                          the next starts (the ops are `async` but every one awaits
                                          its `spawn_blocking` transaction; redb serialises writers)

  A store operation is an ARBITRARY function `σ → Except ε σ` on the logical state (all tables);
  nothing here depends on what the operations do (that is C19–C21).

  What is NOT modelled but ASSUMED: redb and the file system.  `Backend` is the interface lumina
  relies on, `AtomicDurableCommit` the assumption about it (stated as a hypothesis of every
  theorem, never as an axiom): a commit that returned is visible after reopen, a transaction
  that did not commit is invisible, a crash during `commit` leaves either all or nothing of
  it.  A Lean model cannot exhibit a torn page; the correspondence harness validates this
  assumption against the real redb with a fault-injecting `StorageBackend`.

  Import-free.
-/
namespace Lumina.Model.Crash

/-- a store operation = the closure run inside one write transaction -/
abbrev Op (σ ε : Type) := σ → Except ε σ

/-- The durable medium (redb file + OS) as seen from lumina.  `D` = disk images. -/
structure Backend (D σ : Type) where
  /-- the logical state a database (re)opened on this image shows (after redb's own recovery) -/
  view : D → σ
  /-- image after `WriteTransaction::commit()` of working copy `w` has RETURNED -/
  commit : D → σ → D
  /-- image after `WriteTransaction::abort()` has returned -/
  abort : D → D
  /-- images a crash may leave while the closure is running (dirty pages may already be on disk) -/
  crashInTx : D → D → Prop
  /-- images a crash may leave while `commit()` of working copy `w` is in progress -/
  crashInCommit : D → σ → D → Prop
  /-- images a crash may leave while `abort()` is in progress -/
  crashInAbort : D → D → Prop

/-- **The assumption about redb** (`Durability::Immediate`, the default lumina uses). -/
structure AtomicDurableCommit {D σ : Type} (B : Backend D σ) : Prop where
  /-- a commit that returned is durable and entirely visible -/
  commit_visible : ∀ d w, B.view (B.commit d w) = w
  /-- an aborted transaction is invisible -/
  abort_invisible : ∀ d, B.view (B.abort d) = B.view d
  /-- a transaction that never reached `commit` is invisible after a crash -/
  crash_tx_invisible : ∀ d d', B.crashInTx d d' → B.view d' = B.view d
  /-- a crash inside `commit` leaves all of the transaction or nothing of it (never a part),
      on top of everything committed earlier (commits are ordered) -/
  crash_commit_atomic : ∀ d w d', B.crashInCommit d w d' → B.view d' = B.view d ∨ B.view d' = w
  /-- a crash inside `abort` leaves nothing of the transaction -/
  crash_abort_invisible : ∀ d d', B.crashInAbort d d' → B.view d' = B.view d

/-- `RedbStore::write_tx`: one transaction; returns the new image and what the caller sees -/
def writeTx {D σ ε : Type} (B : Backend D σ) (d : D) (f : Op σ ε) : D × Except ε Unit :=
  match f (B.view d) with
  | .ok w => (B.commit d w, .ok ())
  | .error e => (B.abort d, .error e)

/-- a history executed without a crash: final image -/
def runDisk {D σ ε : Type} (B : Backend D σ) (d : D) (ops : List (Op σ ε)) : D :=
  ops.foldl (fun d op => (writeTx B d op).1) d

/-- … and the results returned to the caller, in order -/
def runResults {D σ ε : Type} (B : Backend D σ) (d : D) : List (Op σ ε) → List (Except ε Unit)
  | [] => []
  | op :: rest => (writeTx B d op).2 :: runResults B (writeTx B d op).1 rest

/-! ### the abstract (crash-free, storage-free) meaning of a history -/

/-- an operation either takes effect entirely or (on error) not at all -/
def applyOp {σ ε : Type} (s : σ) (op : Op σ ε) : σ :=
  match op s with
  | .ok s' => s'
  | .error _ => s

def resultOf {σ ε : Type} (s : σ) (op : Op σ ε) : Except ε Unit :=
  match op s with
  | .ok _ => .ok ()
  | .error e => .error e

def runAbs {σ ε : Type} (s : σ) (ops : List (Op σ ε)) : σ := ops.foldl applyOp s

def resultsAbs {σ ε : Type} (s : σ) : List (Op σ ε) → List (Except ε Unit)
  | [] => []
  | op :: rest => resultOf s op :: resultsAbs (applyOp s op) rest

/-- the states after every prefix of the history: `[s, after op₁, after op₁ op₂, …]` -/
def prefixStates {σ ε : Type} (s : σ) : List (Op σ ε) → List σ
  | [] => [s]
  | op :: rest => s :: prefixStates (applyOp s op) rest

/-! ### crashes -/

/-- `CrashImage B d₀ ops d' n`: running `ops` from image `d₀`, the process can crash leaving
    image `d'` at a moment when exactly `n` operations had returned to their caller.  The crash
    may hit between two operations, while the closure of operation `n+1` runs, while its
    `commit` runs, or while its `abort` runs. -/
inductive CrashImage {D σ ε : Type} (B : Backend D σ) (d₀ : D) (ops : List (Op σ ε)) : D → Nat → Prop where
  | idle (pre post : List (Op σ ε)) (h : ops = pre ++ post) :
      CrashImage B d₀ ops (runDisk B d₀ pre) pre.length
  | inClosure (pre post : List (Op σ ε)) (op : Op σ ε) (d' : D) (h : ops = pre ++ op :: post)
      (hc : B.crashInTx (runDisk B d₀ pre) d') :
      CrashImage B d₀ ops d' pre.length
  | inCommit (pre post : List (Op σ ε)) (op : Op σ ε) (w : σ) (d' : D) (h : ops = pre ++ op :: post)
      (hop : op (B.view (runDisk B d₀ pre)) = .ok w)
      (hc : B.crashInCommit (runDisk B d₀ pre) w d') :
      CrashImage B d₀ ops d' pre.length
  | inAbort (pre post : List (Op σ ε)) (op : Op σ ε) (e : ε) (d' : D) (h : ops = pre ++ op :: post)
      (hop : op (B.view (runDisk B d₀ pre)) = .error e)
      (hc : B.crashInAbort (runDisk B d₀ pre) d') :
      CrashImage B d₀ ops d' pre.length

/-- reopening after a crash: `RedbStore::new` runs its own (idempotent) write transaction
    `openOp` on the recovered image; returns what the reopened store shows -/
def reopen {D σ ε : Type} (B : Backend D σ) (openOp : Op σ ε) (d' : D) : D × Except ε Unit :=
  writeTx B d' openOp

/-! ### what breaking the discipline would look like (used for a counterexample only) -/

/-- an operation implemented as TWO consecutive write transactions -/
def writeTx2 {D σ ε : Type} (B : Backend D σ) (d : D) (f g : Op σ ε) : D × Except ε Unit :=
  match writeTx B d f with
  | (d1, .ok ()) => writeTx B d1 g
  | (d1, .error e) => (d1, .error e)

/-- the ideal backend: the image IS the committed state; a crash in `commit` keeps old or new -/
def idealBackend (σ : Type) : Backend σ σ where
  view := id
  commit := fun _ w => w
  abort := id
  crashInTx := fun d d' => d' = d
  crashInCommit := fun d w d' => d' = d ∨ d' = w
  crashInAbort := fun d d' => d' = d

/-- a less trivial backend satisfying the assumption: an image is the committed state plus
    arbitrary uncommitted garbage (dirty pages of transactions that never committed), which
    recovery ignores -/
def journalBackend (σ : Type) : Backend (σ × List σ) σ where
  view := fun d => d.1
  commit := fun _ w => (w, [])
  abort := fun d => (d.1, [])
  crashInTx := fun d d' => d'.1 = d.1
  crashInCommit := fun d w d' => d'.1 = d.1 ∨ d' = (w, [])
  crashInAbort := fun d d' => d'.1 = d.1


/-! ### redb 2.6.3 `end_repair` (file format v2): why a SECOND crash can break the assumption

  `TransactionalMemory::end_repair` (redb-2.6.3 src/tree_store/page_store/page_manager.rs:424)
  finishes repair-on-open by writing the rebuilt allocator state (`allocators.flush_to`) AND the
  header with `recovery_required = false` in ONE flush (one `sync_data`, no barrier between
  them).  If the process crashes inside that flush and the header write survives while the
  allocator pages do not, the next open finds "no recovery required", loads a stale allocator
  state, and the first write transaction — `RedbStore::new`'s — panics inside redb's page
  allocator ("Attempted to free page …, which is not allocated"): the store cannot be opened.
  Found by the multi-crash ops of the C22 harness (`crashr`), see known_findings.json
  `C22/redb-end-repair-double-crash`.  The following miniature backend isolates the mechanism. -/

/-- a medium: committed logical state, is the on-disk allocator state valid, header flag -/
structure Medium where
  committed : Nat
  allocOk : Bool
  recoveryRequired : Bool
  deriving DecidableEq, Repr

/-- the store can be opened iff redb either rebuilds the allocator state (flag set) or the
    allocator state on the medium is valid -/
def Medium.openable (m : Medium) : Bool := m.recoveryRequired || m.allocOk

/-- the two writes of `end_repair`'s single flush; `keepAlloc` / `keepHeader` = which survive -/
def endRepairCrash (m : Medium) (keepAlloc keepHeader : Bool) : Medium :=
  { committed := m.committed
    allocOk := if keepAlloc then true else m.allocOk
    recoveryRequired := if keepHeader then false else m.recoveryRequired }

/-- redb with that `end_repair`: the logical state is `none` when the store cannot be opened.
    While a database is open the header says `recoveryRequired` and the on-disk allocator state
    is stale (`allocOk = false`); a crash at any time while the process is working on the medium
    (here: `crashInTx`, the reopen transaction has not committed) may hit the repair flush. -/
def endRepairBackend : Backend Medium (Option Nat) where
  view m := if m.openable then some m.committed else none
  commit m w := { committed := w.getD m.committed, allocOk := false, recoveryRequired := true }
  abort m := { m with allocOk := false, recoveryRequired := true }
  crashInTx m m' := ∃ ka kh, m' = endRepairCrash m ka kh
  crashInCommit m w m' := m' = m ∨ m' = { committed := w.getD m.committed, allocOk := false, recoveryRequired := true }
  crashInAbort m m' := m' = m

end Lumina.Model.Crash

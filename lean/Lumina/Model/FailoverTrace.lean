/-
  C44 — is an observed concurrent trace (events stamped at the fake endpoints and around each
  call) a run of the fail-over model?  Subset simulation over the hidden `load` / `respond` steps.

  visible event             relation to model steps
  ------------------------  -----------------------------------------------------------------
  start c                   the call future is about to be created; `load c` happens later
  req c e                   endpoint e received the request: the model must have emitted `request e` for c
  ans c e o                 endpoint e handed out answer o; the caller processes it later (`respond c o`)
  ret c r                   the call returned r to its caller: the model must have finished c with r
  probe order               the register was observed (a call failing everywhere tries it in order)

  Import-free.
-/
import Lumina.Model.Failover

namespace Lumina.Model.Failover

inductive Vis where
  | start (c : CallId)
  | req (c : CallId) (e : Ep)
  | ans (c : CallId) (e : Ep) (o : Outcome)
  | ret (c : CallId) (r : Result)
  | probe (order : List Ep)
  deriving DecidableEq, Repr

inductive Phase where
  | started
  | awaitingQ (e : Ep)
  | inflight (e : Ep)
  | answered (o : Outcome)
  | finishing (r : Result)
  deriving DecidableEq, Repr

structure TS where
  m : State
  ph : List (CallId × Phase)
  deriving DecidableEq, Repr

def phaseOf (t : TS) (c : CallId) : Option Phase :=
  (t.ph.find? (fun p => p.1 == c)).map (·.2)

def setPhase (t : TS) (c : CallId) (p : Phase) : TS :=
  { t with ph := (c, p) :: t.ph.filter (fun q => q.1 != c) }

def afterStep (t : TS) (c : CallId) : Option (State × Emit) → List TS
  | some (m', .request e) => [setPhase { t with m := m' } c (.awaitingQ e)]
  | some (m', .finished r) => [setPhase { t with m := m' } c (.finishing r)]
  | _ => []

def hiddenSucc (t : TS) : List TS :=
  t.ph.flatMap (fun (c, p) =>
    match p with
    | .started => afterStep t c (step t.m (.load c))
    | .answered o => afterStep t c (step t.m (.respond c o))
    | _ => [])

def visStep (t : TS) : Vis → Option TS
  | .start c => match phaseOf t c with
    | none => some (setPhase t c .started)
    | some _ => none
  | .req c e => match phaseOf t c with
    | some (.awaitingQ e') => if e == e' then some (setPhase t c (.inflight e)) else none
    | _ => none
  | .ans c e o => match phaseOf t c with
    | some (.inflight e') => if e == e' then some (setPhase t c (.answered o)) else none
    | _ => none
  | .ret c r => match phaseOf t c with
    | some (.finishing r') => if r == r' then some { t with ph := t.ph.filter (fun q => q.1 != c) } else none
    | _ => none
  | .probe order => if t.m.register == order then some t else none

def insertAll (acc : List TS) : List TS → List TS × List TS
  | [] => (acc, [])
  | x :: xs =>
    if acc.contains x then insertAll acc xs
    else
      let (acc', fresh) := insertAll (x :: acc) xs
      (acc', x :: fresh)

def closure (fuel : Nat) (acc frontier : List TS) : List TS :=
  match fuel with
  | 0 => acc
  | fuel + 1 =>
    if frontier.isEmpty then acc
    else
      let (acc', fresh) := insertAll acc (frontier.flatMap hiddenSucc)
      closure fuel acc' fresh

def closeSet (ts : List TS) : List TS :=
  let (acc, fresh) := insertAll [] ts
  closure 256 acc fresh

def accStates : List Vis → List TS → List TS
  | [], cur => cur
  | v :: vs, cur => accStates vs (closeSet (cur.filterMap (fun t => visStep t v)))

/-- states the model can be in after exhibiting the visible trace (empty = not a run) -/
def traceStates (config : List Ep) (tr : List Vis) : List TS :=
  accStates tr [{ m := init config, ph := [] }]

end Lumina.Model.Failover

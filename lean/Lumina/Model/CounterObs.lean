/-
  C41 — glue between the model's vocabulary and the spec's vocabulary (import-free).

  `track` maintains the spec-side history `Hist` of a sequential history from the op and its
  outcome class only; `toEv` renames visible trace events.
-/
import Lumina.Model.Counter
import Lumina.Spec.C41

namespace Lumina.Model.Counter
open Lumina.Spec.C41 (Hist Ev)

def track (h : Hist) : SeqOp → SeqOut → Hist
  | .guard, .ok => { h with created := h.created + 1 }
  | .drop i, .ok => { h with released := i :: h.released, dropped := i :: h.dropped }
  | .dec i, .ok => { h with released := i :: h.released }
  | .notify i, .ok => { h with dropped := i :: h.dropped }
  | _, _ => h

def toEv : Vis → Ev
  | .call => .call
  | .pollBegin => .pollBegin
  | .pollPending => .pollPending
  | .pollReady => .pollReady
  | .dropBegin i => .dropBegin i
  | .dropEnd i => .dropEnd i

/-- run a sequential history, judging every poll result with the spec -/
def seqSpecAll (s : State) (h : Hist) : List SeqOp → Bool
  | [] => true
  | op :: ops =>
    let (s', out) := seqStep s op
    let okHere := match out with
      | .ready => Lumina.Spec.C41.specPoll h true
      | .pending => Lumina.Spec.C41.specPoll h false
      | _ => true
    okHere && seqSpecAll s' (track h op out) ops

end Lumina.Model.Counter

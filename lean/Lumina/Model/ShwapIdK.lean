/-
  Kind-indexed view of the five Shwap identifier models, in the vocabulary of `Spec/C15.lean`
  (`Kind`, abstract `Id`).  Shared by the driver and the theorems so that both talk about the same
  observation of the model.
-/
import Lumina.Model.ShwapId
import Lumina.Spec.C15

namespace Lumina.Model.ShwapId
open Lumina.Util
open Lumina.Spec.C15 (Kind Id CidObs)

def idOfEds (x : EdsId) : Id := ⟨.eds, x.height, 0, 0, []⟩
def idOfRow (x : RowId) : Id := ⟨.row, x.eds.height, x.index, 0, []⟩
def idOfSample (x : SampleId) : Id := ⟨.sample, x.row.eds.height, x.row.index, x.column, []⟩
def idOfRnd (x : RowNamespaceDataId) : Id := ⟨.rowNsData, x.row.eds.height, x.row.index, 0, x.ns⟩
def idOfNd (x : NamespaceDataId) : Id := ⟨.nsData, x.eds.height, 0, 0, x.ns⟩

/-- the model's `decode` per kind, as (abstract id, re-encoding of the decoded value) -/
def decodeK (k : Kind) (buf : Bytes) : Except Err (Id × Bytes) :=
  match k with
  | .eds => (EdsId.decode buf).map (fun x => (idOfEds x, x.encode))
  | .row => (RowId.decode buf).map (fun x => (idOfRow x, x.encode))
  | .sample => (SampleId.decode buf).map (fun x => (idOfSample x, x.encode))
  | .rowNsData => (RowNamespaceDataId.decode buf).map (fun x => (idOfRnd x, x.encode))
  | .nsData => (NamespaceDataId.decode buf).map (fun x => (idOfNd x, x.encode))

/-- the model's `new` + `encode` (+ `From<Id> for CidGeneric`) per kind -/
def newK (id : Id) : Except Err (Bytes × Option Cid) :=
  match id.kind with
  | .eds => (EdsId.new id.height).map (fun x => (x.encode, none))
  | .row => (RowId.new id.row id.height).map (fun x => (x.encode, some x.toCid))
  | .sample => (SampleId.new id.row id.col id.height).map (fun x => (x.encode, some x.toCid))
  | .rowNsData => (RowNamespaceDataId.new id.ns id.row id.height).map (fun x => (x.encode, some x.toCid))
  | .nsData => (NamespaceDataId.new id.ns id.height).map (fun x => (x.encode, none))

/-- `TryFrom<CidGeneric>` per kind (`none`: the kind has no CID form) -/
def ofCidK (k : Kind) (c : Cid) : Option (Except CidErr Id) :=
  match k with
  | .row => some ((RowId.ofCid c).map idOfRow)
  | .sample => some ((SampleId.ofCid c).map idOfSample)
  | .rowNsData => some ((RowNamespaceDataId.ofCid c).map idOfRnd)
  | _ => none

def cidObs (c : Cid) : CidObs := ⟨c.version, c.codec, c.mhCode, c.digest⟩

end Lumina.Model.ShwapId

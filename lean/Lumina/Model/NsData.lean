/-
  Model of namespace data retrieval: `RowNamespaceData::{verify, from_raw}` (types/src/row_namespace_data.rs),
  `NamespaceData::{verify, from_raw}` (types/src/namespace_data.rs) and
  `ExtendedDataSquare::get_namespace_data` (types/src/eds.rs).
-/
import Lumina.Model.Sample

namespace Lumina.Model.NsData
open Lumina.Util Lumina.Model.Nmt Lumina.Model.Eds
open Lumina.Model.Sample (SErr shareFromRaw shareParity)

/-- `RowNamespaceData { proof, shares }` -/
structure RowNsData where
  proof : NsProof
  shares : List Share
  deriving DecidableEq, Repr, Inhabited

inductive NErr where
  | wrongProofType
  | edsIndexOutOfRange
  | rangeProof (e : Nmt.Err)
  | namespaceDataTooLarge
  | verification
  | validation
  | missingProof
  | invalidNamespacedHash
  | share (e : SErr)
  | indexOutOfRange
  | nmt
  | panic
  deriving DecidableEq, Repr, Inhabited

def NErr.kind : NErr → String
  | .wrongProofType => "WrongProofType"
  | .edsIndexOutOfRange => "EdsIndexOutOfRange"
  | .rangeProof .panic => "panic"
  | .rangeProof e => "RangeProofError:" ++ e.kind
  | .namespaceDataTooLarge => "NamespaceDataTooLarge"
  | .verification => "Verification"
  | .validation => "Validation"
  | .missingProof => "MissingProof"
  | .invalidNamespacedHash => "InvalidNamespacedHash"
  | .share e => e.kind
  | .indexOutOfRange => "IndexOutOfRange"
  | .nmt => "Nmt"
  | .panic => "panic"

def NErr.isPanic : NErr → Bool
  | .rangeProof .panic => true
  | .panic => true
  | _ => false

/-- `RowNamespaceData::verify(id, dah)`; the leaves are hashed with the REQUESTED namespace -/
def rowVerify (H : HashFn) (d : RowNsData) (ns : Bytes) (row : Nat) (dah : Dah) : Except NErr Unit :=
  if (d.shares.isEmpty && !d.proof.isAbsence) || (!d.shares.isEmpty && d.proof.isAbsence) then .error .wrongProofType
  else
    match dah.rowRoot? row with
    | none => .error .edsIndexOutOfRange
    | some root =>
      match luminaVerifyCompleteNamespace H d.proof root (d.shares.map Share.data) ns with
      | .ok () => .ok ()
      | .error e => .error (.rangeProof e)

def U16_MAX : Nat := 65535

/-- `zip` + `?`: first error wins -/
def verifyRows (H : HashFn) (ns : Bytes) (dah : Dah) : List RowNsData → List Nat → Except NErr Unit
  | d :: ds, r :: rs =>
    match rowVerify H d ns r dah with
    | .error e => .error e
    | .ok () => verifyRows H ns dah ds rs
  | _, _ => .ok ()

/-- `NamespaceData::verify(id, dah)`; `dah.square_width()` panics when there are more than 65535 row roots -/
def verify (H : HashFn) (rows : List RowNsData) (ns : Bytes) (dah : Dah) : Except NErr Unit :=
  if rows.length > U16_MAX then .error .namespaceDataTooLarge
  else if dah.rowRoots.length > U16_MAX then .error .panic
  else
    let rowIdxs := (List.range dah.rowRoots.length).filter (fun r => ((dah.rowContains? H r ns).getD false))
    if rowIdxs.length ≠ rows.length then .error .verification
    else verifyRows H ns dah rows rowIdxs

/-- shares of a wire message: `Share::from_raw` unless the requested namespace is the parity namespace -/
def parseShares (ns : Bytes) : List Bytes → Except SErr (List Share)
  | [] => .ok []
  | d :: rest =>
    match (if ns != parityNs then shareFromRaw d else shareParity d) with
    | .error e => .error e
    | .ok s =>
      match parseShares ns rest with
      | .error e => .error e
      | .ok ss => .ok (s :: ss)

/-- `RowNamespaceData::from_raw(id, raw)`: `proof` = `(start, end, nodes, leaf_hash, is_max_namespace_ignored)` -/
def rowFromRaw (ns : Bytes) (shares : List Bytes) (proof : Option (Nat × Nat × List Bytes × Bytes × Bool)) :
    Except NErr RowNsData :=
  match proof with
  | none => .error .missingProof
  | some (st, en, nodes, leafHash, ign) =>
    match parseShares ns shares with
    | .error e => .error (.share e)
    | .ok shs =>
      if !shs.all (fun s => s.ns == ns) then .error .validation
      else
        match NsProof.ofRaw st en nodes leafHash ign with
        | none => .error .invalidNamespacedHash
        | some p => .ok ⟨p, shs⟩

/-- the scan of one row in `get_namespace_data`: skip smaller namespaces, collect equal ones, stop at the first greater -/
def scanRow (ns : Bytes) : List Share → List Share
  | [] => []
  | s :: rest =>
    if ltB s.ns ns then scanRow ns rest
    else if s.ns == ns then s :: scanRow ns rest
    else []

/-- `ExtendedDataSquare::get_namespace_data(ns, dah, height)`: `(row index, data)` for every row whose root covers `ns` -/
def getNamespaceDataAux (H : HashFn) (e : Eds) (ns : Bytes) (dah : Dah) : List Nat → Except NErr (List (Nat × RowNsData))
  | [] => .ok []
  | row :: rest =>
    match dah.rowContains? H row ns with
    | none => .error .indexOutOfRange
    | some false => getNamespaceDataAux H e ns dah rest
    | some true =>
      match e.axis? .row row with
      | none => .error .edsIndexOutOfRange
      | some shares =>
        match pushLeaves H (shares.map Share.leaf) with
        | none => .error .nmt
        | some _ =>
          match getNamespaceProof H true (shares.map Share.leaf) ns with
          | .error _ => .error .panic
          | .ok proof =>
            match getNamespaceDataAux H e ns dah rest with
            | .error er => .error er
            | .ok more => .ok ((row, ⟨proof, scanRow ns shares⟩) :: more)

def getNamespaceData (H : HashFn) (e : Eds) (ns : Bytes) (dah : Dah) : Except NErr (List (Nat × RowNsData)) :=
  getNamespaceDataAux H e ns dah (List.range e.width)

end Lumina.Model.NsData

/-
  Network head selection (C31): model of `schedule_head_request` and of the `TaskResult::Head`
  handling in `poll` (`node/src/p2p/header_ex/client.rs`).

  * peer selection: `peer_tracker.peers().filter(connected && trusted).take(MAX_PEERS)`;
  * the best-head task: keep the answers that are `Ok(Ok(v))` with `v.len() == 1`, count peers per
    hash, `sort_unstable_by_key(Reverse((height, count)))`, first with count >= 2, else first;
  * fan-out: every waiting caller gets a clone of the chosen head; `None` re-arms the request.

  `sort_unstable_by_key` on at most `MAX_PEERS` = 10 elements is std's insertion sort
  (`len <= 20`), i.e. stable; the model uses a stable insertion sort (the spec does not depend on
  how ties are broken).  Import-free.
-/
import Lumina.Model.Util

namespace Lumina.Model.HeadSelect
open Lumina.Util

structure Hdr where
  height : Nat
  hash : Bytes
  deriving DecidableEq, Repr, Inhabited

/-- what one of the fanned-out requests resolved to -/
inductive Ans where
  | single (h : Hdr)   -- `Ok(Ok(v))`, `v.len() == 1` (decoded and validated by the client)
  | other              -- an error of any kind, a failure, or a list that is not one header
  deriving DecidableEq, Repr

structure Peer where
  id : Nat
  connected : Bool
  trusted : Bool
  deriving DecidableEq, Repr

/-- recipients of the HEAD request -/
def selectPeers (maxPeers : Nat) (peers : List Peer) : List Peer :=
  (peers.filter (fun p => p.connected && p.trusted)).take maxPeers

def valid (as : List Ans) : List Hdr :=
  as.filterMap (fun a => match a with | .single h => some h | .other => none)

/-- `counter[&resp.hash()]` -/
def votes (rs : List Hdr) (h : Hdr) : Nat := rs.countP (fun x => x.hash == h.hash)

/-- `(height, num_of_peers)` compared lexicographically: `a` has a strictly smaller key than `b` -/
def keyLt (rs : List Hdr) (a b : Hdr) : Bool :=
  a.height < b.height || (a.height == b.height && votes rs a < votes rs b)

/-- insert `x` into a list sorted by descending key, after every element whose key is not smaller
    (insertion sort shifts `x` left only past strictly smaller keys: stable) -/
def insertDesc (rs : List Hdr) (x : Hdr) : List Hdr → List Hdr
  | [] => [x]
  | y :: ys => if keyLt rs y x then x :: y :: ys else y :: insertDesc rs x ys

/-- `resps.sort_unstable_by_key(|r| Reverse((r.height(), counter[&r.hash()])))` for `len <= 20`:
    insertion sort from the left -/
def sortDesc (rs : List Hdr) : List Hdr :=
  rs.foldl (fun sorted x => insertDesc rs x sorted) []

def MIN_HEAD_RESPONSES : Nat := 2

/-- the best-head task; `none` = `TaskResult::Head(None)` (no valid response: retry later) -/
def bestHead (as : List Ans) : Option Hdr :=
  let rs := valid as
  if rs.isEmpty then none
  else
    let sorted := sortDesc rs
    match sorted.find? (fun r => votes rs r ≥ MIN_HEAD_RESPONSES) with
    | some h => some h
    | none => sorted.head?

/-! ### the handler state around head requests -/

structure State where
  /-- `head_reqs`: waiting callers (ids), oldest first -/
  waiting : List Nat
  /-- `head_req_scheduled` -/
  scheduled : Bool
  deriving DecidableEq, Repr

def init : State := { waiting := [], scheduled := false }

inductive Ev where
  | call (caller : Nat)                 -- `on_send_request(head_request)`
  | cancel (caller : Nat)               -- the caller dropped its receiver
  | schedule (peers : List Peer)        -- `schedule_pending_requests`
  | done (answers : List Ans)           -- the best-head task finished with these peer answers
  deriving Repr

inductive Out where
  | sent (to : List Nat)                -- HEAD request sent to these peers
  | answer (caller : Nat) (h : Hdr)     -- a caller received `Ok(vec![h])`
  deriving DecidableEq, Repr

/-- one event; `closed` = callers whose receiver is gone (their channels are dropped at the next
    schedule by `head_reqs.retain(|tx| !tx.is_closed())`) -/
def step (maxPeers : Nat) (s : State) (closed : List Nat) : Ev → State × List Out
  | .call c => ({ s with waiting := s.waiting ++ [c] }, [])
  | .cancel _ => (s, [])
  | .schedule peers =>
    if s.waiting.isEmpty || s.scheduled then (s, [])          -- `has_pending_head_requests`
    else
      let w := s.waiting.filter (fun c => !closed.contains c)
      if w.isEmpty then ({ s with waiting := w }, [])
      else
        let sel := selectPeers maxPeers peers
        if sel.isEmpty then ({ s with waiting := w }, [])
        else ({ waiting := w, scheduled := true }, [.sent (sel.map (·.id))])
  | .done answers =>
    match bestHead answers with
    | none => ({ s with scheduled := false }, [])
    | some h => ({ waiting := [], scheduled := false }, s.waiting.map (fun c => .answer c h))

end Lumina.Model.HeadSelect

/-
  Model of `RedbStore::new` (node/src/store/redb_store.rs): the schema-version gate, the two
  migrations and table creation, all inside ONE write transaction that is committed when the
  closure returns `Ok` and aborted (database untouched) when it returns `Err` or panics.

  redb tables are association lists.  `none` = the table does not exist.

    Rust                                          Lean
    ------------------------------------------    -----------------------------
    BlockRangeExt::validate                       validRange
    BlockRanges::from_vec                         fromVecLoop / fromVec
    get_ranges(table, key)                        getRanges
    set_ranges / Table::insert                    RangesTable.insert
    Table::remove                                 RangesTable.remove
    BTree insert into the u64-keyed v1 table      hrInsert      (keeps key order = iteration order)
    migrate_v1_to_v2                              migrateV1toV2
    migrate_v2_to_v3                              migrateV2toV3
    closure passed to write_tx in RedbStore::new  openTx
    RedbStore::new (write_tx: commit / abort)     openDb

  Debug-build `debug_assert_eq!`s and `expect`s are modelled as the error `debugAssert`: the
  panic unwinds out of the closure inside `spawn_blocking`, the `WriteTransaction` is dropped
  (= aborted), tokio turns the panic into a `JoinError`, which `RedbStore::new` reports as
  `OpenFailed` like every other error.  (The harness builds with debug assertions on.)

  Import-free apart from the generated constants.
-/
import Lumina.Gen.C23

namespace Lumina.Model.RedbSchema
open Lumina.Gen.C23

/-- `Vec<(u64, u64)>` as stored in the ranges table -/
abbrev Raw := List (Nat × Nat)

inductive Err where
  /-- `schema_version > SCHEMA_VERSION` -/
  | incompatible (found : Nat)
  /-- `StoreError::StoredDataError` (invalid stored ranges) -/
  | storedData
  /-- a `debug_assert!`/`expect` panicked inside the transaction closure -/
  | debugAssert
  deriving DecidableEq, Repr

def Err.kind : Err → String
  | .incompatible _ => "Incompatible"
  | .storedData => "StoredData"
  | .debugAssert => "Executor"

/-- `BlockRangeExt::validate`: `start > 0 && start <= end` -/
def validRange (r : Nat × Nat) : Bool := decide (r.1 > 0) && decide (r.1 ≤ r.2)

/-- the loop of `BlockRanges::from_vec` (as repaired by /repo commit 574df8d "from_vec merges
    adjacent ranges"): `merged` is the accumulator, kept REVERSED here (`merged.last_mut()` is
    the head); a range must be valid and start after the end of the previous (merged) one; a
    range that starts right after it is merged into it -/
def fromVecLoop : Raw → Raw → Option Raw
  | merged, [] => some merged.reverse
  | merged, r :: rest =>
    if !validRange r then none
    else
      match merged with
      | prev :: older =>
        if r.1 ≤ prev.2 then none                                            -- UnsortedBlockRanges
        else if prev.2 + 1 = r.1 then fromVecLoop ((prev.1, r.2) :: older) rest   -- merge
        else fromVecLoop (r :: prev :: older) rest
      | [] => fromVecLoop [r] rest

/-- `BlockRanges::from_vec`, as used by `get_ranges` (any error becomes `StoredDataError`) -/
def fromVec (rs : Raw) : Except Err Raw :=
  match fromVecLoop [] rs with
  | some m => .ok m
  | none => .error .storedData

/-- `STORE.RANGES`: `&str ↦ Vec<(u64,u64)>` -/
abbrev RangesTable := List (String × Raw)

def RangesTable.get (t : RangesTable) (k : String) : Option Raw :=
  match t with
  | [] => none
  | e :: rest => if e.1 == k then some e.2 else RangesTable.get rest k

/-- `Table::insert`: replace the value of an existing key, else add the key -/
def RangesTable.insert (t : RangesTable) (k : String) (v : Raw) : RangesTable :=
  match t with
  | [] => [(k, v)]
  | e :: rest => if e.1 == k then (k, v) :: rest else e :: RangesTable.insert rest k v

def RangesTable.remove (t : RangesTable) (k : String) : RangesTable :=
  match t with
  | [] => []
  | e :: rest => if e.1 == k then RangesTable.remove rest k else e :: RangesTable.remove rest k

/-- v1 `STORE.HEIGHT_RANGES`: `u64 ↦ (u64,u64)`; the list is kept in key order, which is the
    order `Table::iter` yields -/
abbrev HeightRanges := List (Nat × (Nat × Nat))

/-- B-tree insert (overwrite on equal key) -/
def hrInsert (t : HeightRanges) (k : Nat) (v : Nat × Nat) : HeightRanges :=
  match t with
  | [] => [(k, v)]
  | e :: rest =>
    if k < e.1 then (k, v) :: e :: rest
    else if k = e.1 then (k, v) :: rest
    else e :: hrInsert rest k v

/-- everything `RedbStore::new` reads or writes -/
structure Db where
  /-- value under `()` in `STORE.SCHEMA_VERSION` (`none`: table missing or empty) -/
  version : Option Nat
  /-- v1 table `STORE.HEIGHT_RANGES` -/
  heightRanges : Option HeightRanges
  /-- `STORE.RANGES` -/
  ranges : Option RangesTable
  /-- existence of `STORE.HEIGHTS`, `STORE.HEADERS`, `STORE.SAMPLING_METADATA` (contents are
      never touched by `new`) -/
  heights : Bool
  headers : Bool
  sampling : Bool
  /-- `LIBP2P.IDENTITY`: `none` table missing, `some none` empty, `some (some k)` key `k` -/
  identity : Option (Option Nat)
  deriving DecidableEq, Repr

/-- `get_ranges`: a missing key reads as the empty vector; the vector must pass `from_vec` -/
def getRanges (t : RangesTable) (k : String) : Except Err Raw :=
  fromVec ((t.get k).getD [])

/-- `migrate_v1_to_v2` -/
def migrateV1toV2 (db : Db) : Except Err Db :=
  match db.version with
  | none => .error .debugAssert                       -- expect("migrations never run on new db")
  | some version =>
    if version ≥ V1V2_GATE then .ok db                -- nothing to migrate
    else if version ≠ V1V2_FROM then .error .debugAssert   -- debug_assert_eq!(version, 1)
    else
      let headerRangesTable := db.heightRanges.getD []     -- open_table creates a missing table
      let rangesTable := db.ranges.getD []
      let rawRanges := headerRangesTable.map (fun e => e.2)   -- iter(): key order
      .ok { db with
            heightRanges := none                                          -- delete_table
            ranges := some (rangesTable.insert HEADER_RANGES_KEY rawRanges)
            version := some V1V2_TARGET }

/-- `migrate_v2_to_v3` -/
def migrateV2toV3 (db : Db) : Except Err Db :=
  match db.version with
  | none => .error .debugAssert
  | some version =>
    if version ≥ V2V3_GATE then .ok db
    else if version ≠ V2V3_FROM then .error .debugAssert   -- debug_assert_eq!(version, 2)
    else
      let rangesTable := db.ranges.getD []
      match getRanges rangesTable V2_SAMPLED_RANGES_KEY with
      | .error e => .error e
      | .ok sampled =>
        .ok { db with
              ranges := some ((rangesTable.insert SAMPLED_RANGES_KEY sampled).remove V2_SAMPLED_RANGES_KEY)
              version := some V2V3_TARGET }

/-- table creation and identity initialisation at the end of the closure -/
def createTables (newId : Nat) (db : Db) : Db :=
  { db with
    heights := true, headers := true, sampling := true
    ranges := some (db.ranges.getD [])
    identity := match db.identity with
      | some (some k) => some (some k)
      | _ => some (some newId) }

/-- the closure `RedbStore::new` passes to `write_tx`; `newId` is the freshly generated key -/
def openTx (newId : Nat) (db : Db) : Except Err Db :=
  let migrated : Except Err Db :=
    match db.version with
    | some v =>
      if v > SCHEMA_VERSION then .error (.incompatible v)
      else
        match migrateV1toV2 db with
        | .error e => .error e
        | .ok db1 => migrateV2toV3 db1
    | none => .ok { db with version := some SCHEMA_VERSION }
  match migrated with
  | .error e => .error e
  | .ok db2 =>
    -- debug_assert_eq!(version, Some(SCHEMA_VERSION), "Some migrations are missing")
    if db2.version != some SCHEMA_VERSION then .error .debugAssert
    else .ok (createTables newId db2)

/-- `RedbStore::new`: `write_tx` commits the closure's changes on `Ok`, aborts on `Err` -/
def openDb (newId : Nat) (db : Db) : Db × Except Err Unit :=
  match openTx newId db with
  | .ok db' => (db', .ok ())
  | .error e => (db, .error e)

/-- what `Store::get_stored_header_ranges` / `get_sampled_ranges` / `get_pruned_ranges` report -/
def report (db : Db) (k : String) : Except Err Raw := getRanges (db.ranges.getD []) k

def reportStored (db : Db) : Except Err Raw := report db HEADER_RANGES_KEY
def reportSampled (db : Db) : Except Err Raw := report db SAMPLED_RANGES_KEY
def reportPruned (db : Db) : Except Err Raw := report db PRUNED_RANGES_KEY

end Lumina.Model.RedbSchema

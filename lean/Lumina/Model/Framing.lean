/-
  Header-ex wire framing (C30): model of `node/src/p2p/header_ex.rs` `HeaderCodec`
  (`read_request`, `read_response`, `write_request`, `write_response`, `read_up_to`,
  `parse_delimiter`, `parse_header_request`, `parse_header_response`) and of the parts of
  `prost` 0.13.5 it calls (`encode_varint`, `decode_varint`, `decode_key`, `skip_field`,
  `bytes::merge`, `uint64::merge`, `int32::merge`, the derived `encode_raw` / `merge_field`
  of `HeaderRequest` / `HeaderResponse`).

  Import-free (compiled into the driver).  `u64` values are `Nat`s (< 2^64), the `i32`
  status code is an `Int`.
-/
import Lumina.Model.Util

namespace Lumina.Model.Framing
open Lumina.Util

/-! ## prost varint -/

/-- `prost::encoding::encode_varint`: at most 10 iterations -/
def encodeVarintLoop : Nat → Nat → Bytes
  | 0, _ => []
  | n + 1, v =>
    if v < 128 then [UInt8.ofNat v]
    else UInt8.ofNat (v % 128 + 128) :: encodeVarintLoop n (v / 128)

def encodeVarint (v : Nat) : Bytes := encodeVarintLoop 10 v

/-- `prost::encoding::decode_varint` on a contiguous slice (fast path, unrolled slice path and
    slow path agree): little-endian base-128, at most 10 bytes, the 10th byte must be < 2.
    `count` = index of the current byte, `acc` = value so far. -/
def decodeVarintAux (count acc : Nat) : Bytes → Option (Nat × Bytes)
  | [] => none
  | b :: rest =>
    if b.toNat < 128 then
      if count = 9 ∧ b.toNat ≥ 2 then none
      else some (acc + b.toNat * 2 ^ (7 * count), rest)
    else if count ≥ 9 then none
    else decodeVarintAux (count + 1) (acc + (b.toNat - 128) * 2 ^ (7 * count)) rest

def decodeVarint (bs : Bytes) : Option (Nat × Bytes) := decodeVarintAux 0 0 bs

/-! ## messages -/

/-- `header_request::Data` (oneof) -/
inductive ReqData where
  | none
  | origin (o : Nat)
  | hash (h : Bytes)
  deriving DecidableEq, Repr, Inhabited

structure HeaderRequest where
  amount : Nat
  data : ReqData
  deriving DecidableEq, Repr, Inhabited

structure HeaderResponse where
  body : Bytes
  /-- `status_code: i32` -/
  status : Int
  deriving DecidableEq, Repr, Inhabited

/-- `i32 as u64` (sign extension) -/
def i32ToU64 (s : Int) : Nat := if s < 0 then (s + 18446744073709551616).toNat else s.toNat
/-- `u64 as i32` (truncation) -/
def u64ToI32 (v : Nat) : Int :=
  let w := v % 4294967296
  if w < 2147483648 then (w : Int) else (w : Int) - 4294967296

/-- `bytes::encode(tag, ..)`: key, length, payload -/
def encodeBytesField (key : Nat) (b : Bytes) : Bytes :=
  encodeVarint key ++ encodeVarint b.length ++ b
/-- `uint64::encode` / `int32::encode` -/
def encodeVarintField (key : Nat) (v : Nat) : Bytes :=
  encodeVarint key ++ encodeVarint v

/-- derived `HeaderRequest::encode_raw`: fields in tag order; the oneof is always written when
    set, `amount` only when non-zero.  keys: (1<<3)|0 = 8, (2<<3)|2 = 18, (3<<3)|0 = 24 -/
def encodeRequest (r : HeaderRequest) : Bytes :=
  (match r.data with
   | .none => []
   | .origin o => encodeVarintField 8 o
   | .hash h => encodeBytesField 18 h) ++
  (if r.amount ≠ 0 then encodeVarintField 24 r.amount else [])

/-- derived `HeaderResponse::encode_raw`.  keys: (1<<3)|2 = 10, (2<<3)|0 = 16 -/
def encodeResponse (r : HeaderResponse) : Bytes :=
  (if r.body ≠ [] then encodeBytesField 10 r.body else []) ++
  (if r.status ≠ 0 then encodeVarintField 16 (i32ToU64 r.status) else [])

/-- `Message::encode_length_delimited` into a `Vec` (never out of capacity) -/
def lengthDelimited (body : Bytes) : Bytes := encodeVarint body.length ++ body

/-! ## prost decoding -/

/-- `decode_key`: (tag, wire type, rest) -/
def decodeKey (buf : Bytes) : Option (Nat × Nat × Bytes) :=
  match decodeVarint buf with
  | none => none
  | some (key, rest) =>
    if key > 4294967295 then none
    else
      let wt := key % 8
      if wt > 5 then none
      else
        let tag := (key % 4294967296) / 8
        if tag < 1 then none else some (tag, wt, rest)

/-- the `StartGroup` loop of `skip_field`; `fuel` bounds the number of inner fields (each
    consumes at least one byte) -/
def skipGroupLoop (skipInner : Nat → Nat → Bytes → Option Bytes) (tag : Nat) :
    Nat → Bytes → Option Bytes
  | 0, _ => none
  | fuel + 1, buf =>
    match decodeKey buf with
    | none => none
    | some (itag, iwt, rest) =>
      if iwt = 4 then (if itag ≠ tag then none else some rest)
      else
        match skipInner iwt itag rest with
        | none => none
        | some rest' => skipGroupLoop skipInner tag fuel rest'

/-- `skip_field(wire_type, tag, buf, ctx)`; `depth` = `ctx.recurse_count` -/
def skipField : Nat → Nat → Nat → Bytes → Option Bytes
  | 0, _, _, _ => none                                   -- recursion limit reached
  | depth + 1, wt, tag, buf =>
    let after : Option (Nat × Bytes) :=
      if wt = 0 then (decodeVarint buf).map (fun p => (0, p.2))
      else if wt = 5 then some (4, buf)
      else if wt = 1 then some (8, buf)
      else if wt = 2 then decodeVarint buf
      else if wt = 3 then
        (skipGroupLoop (fun w t b => skipField depth w t b) tag (buf.length + 1) buf).map (fun r => (0, r))
      else none                                            -- EndGroup
    match after with
    | none => none
    | some (len, rest) => if len > rest.length then none else some (rest.drop len)

/-- `bytes::merge` -/
def mergeBytes (wt : Nat) (buf : Bytes) : Option (Bytes × Bytes) :=
  if wt ≠ 2 then none
  else match decodeVarint buf with
    | none => none
    | some (len, rest) => if len > rest.length then none else some (rest.take len, rest.drop len)

/-- `uint64::merge` / `int32::merge` (raw u64) -/
def mergeVarint (wt : Nat) (buf : Bytes) : Option (Nat × Bytes) :=
  if wt ≠ 0 then none else decodeVarint buf

def RECURSION_LIMIT : Nat := 100

/-- derived `HeaderRequest::merge_field` -/
def mergeFieldRequest (m : HeaderRequest) (tag wt : Nat) (buf : Bytes) : Option (HeaderRequest × Bytes) :=
  if tag = 3 then (mergeVarint wt buf).map (fun p => ({ m with amount := p.1 }, p.2))
  else if tag = 1 then (mergeVarint wt buf).map (fun p => ({ m with data := .origin p.1 }, p.2))
  else if tag = 2 then (mergeBytes wt buf).map (fun p => ({ m with data := .hash p.1 }, p.2))
  else (skipField RECURSION_LIMIT wt tag buf).map (fun r => (m, r))

/-- derived `HeaderResponse::merge_field` -/
def mergeFieldResponse (m : HeaderResponse) (tag wt : Nat) (buf : Bytes) : Option (HeaderResponse × Bytes) :=
  if tag = 1 then (mergeBytes wt buf).map (fun p => ({ m with body := p.1 }, p.2))
  else if tag = 2 then (mergeVarint wt buf).map (fun p => ({ m with status := u64ToI32 p.1 }, p.2))
  else (skipField RECURSION_LIMIT wt tag buf).map (fun r => (m, r))

/-- `Message::merge`: `while buf.has_remaining() { decode_key; merge_field }` -/
def mergeLoop {α} (mergeField : α → Nat → Nat → Bytes → Option (α × Bytes)) : Nat → α → Bytes → Option α
  | _, m, [] => some m
  | 0, _, _ :: _ => none
  | fuel + 1, m, buf@(_ :: _) =>
    match decodeKey buf with
    | none => none
    | some (tag, wt, rest) =>
      match mergeField m tag wt rest with
      | none => none
      | some (m', rest') => mergeLoop mergeField fuel m' rest'

/-- `HeaderRequest::decode` -/
def decodeRequest (buf : Bytes) : Option HeaderRequest :=
  mergeLoop mergeFieldRequest buf.length { amount := 0, data := .none } buf

/-- `HeaderResponse::decode` -/
def decodeResponse (buf : Bytes) : Option HeaderResponse :=
  mergeLoop mergeFieldResponse buf.length { body := [], status := 0 } buf

/-! ## header_ex.rs -/

/-- `parse_delimiter` -/
def parseDelimiter (buf : Bytes) : Option (Nat × Bytes) :=
  if buf.isEmpty then none else decodeVarint buf

/-- `parse_header_request`, generic in the body decoder -/
def parseFrame {α} (dec : Bytes → Option α) (buf : Bytes) : Option (α × Bytes) :=
  match parseDelimiter buf with
  | none => none
  | some (len, rest) =>
    if rest.length < len then none
    else match dec (rest.take len) with
      | none => none
      | some m => some (m, rest.drop len)

def parseHeaderRequest (buf : Bytes) : Option HeaderRequest :=
  (parseFrame decodeRequest buf).map (·.1)

def parseHeaderResponse (buf : Bytes) : Option (HeaderResponse × Bytes) :=
  parseFrame decodeResponse buf

/-- the `while let Some((header, rest)) = parse_header_response(data)` loop of `read_response`;
    every successful parse consumes at least one byte, `fuel` = length of the buffer -/
def parseFrames {α} (dec : Bytes → Option α) : Nat → Bytes → List α
  | 0, _ => []
  | fuel + 1, buf =>
    match parseFrame dec buf with
    | none => []
    | some (m, rest) => m :: parseFrames dec fuel rest

/-- `read_up_to(io, size_limit, _)` against a reader holding `data` that hands out at most
    `cuts[i]` bytes on its i-th `read` call (everything it has once `cuts` is used up), never more
    than the free space it is offered.  A read of 0 bytes is EOF.  The time limit is not modelled:
    hitting it is the same as the stream ending early. -/
def readUpToAux (limit : Nat) (acc data : Bytes) : List Nat → Bytes
  | [] => acc ++ data.take (limit - acc.length)
  | c :: cs =>
    if acc.length = limit then acc
    else
      let n := min c (min (limit - acc.length) data.length)
      if n = 0 then acc
      else readUpToAux limit (acc ++ data.take n) (data.drop n) cs

def readUpTo (limit : Nat) (data : Bytes) (cuts : List Nat) : Bytes := readUpToAux limit [] data cuts

/-- `HeaderCodec::write_request` -/
def writeRequest (r : HeaderRequest) : Bytes := lengthDelimited (encodeRequest r)

/-- `HeaderCodec::write_response`: the buffer is a growable `Vec`, `encode_length_delimited`
    never reports insufficient capacity, so every response is written -/
def writeResponses (rs : List HeaderResponse) : Bytes := (rs.map (fun r => lengthDelimited (encodeResponse r))).flatten

/-- `HeaderCodec::read_request` -/
def readRequest (limit : Nat) (data : Bytes) (cuts : List Nat) : Option HeaderRequest :=
  parseHeaderRequest (readUpTo limit data cuts)

/-- `HeaderCodec::read_response`: `None` = `Err("invalid or incomplete response")` -/
def readResponsesOf {α} (dec : Bytes → Option α) (limit : Nat) (data : Bytes) (cuts : List Nat) : Option (List α) :=
  let buf := readUpTo limit data cuts
  let msgs := parseFrames dec buf.length buf
  if msgs.isEmpty then none else some msgs

def readResponses (limit : Nat) (data : Bytes) (cuts : List Nat) : Option (List HeaderResponse) :=
  readResponsesOf decodeResponse limit data cuts

/-! ### (S9) a reader whose `fail`-th `read` call returns an I/O error

`Ok(Err(e)) => return Err(e)` in `read_up_to`: the error is returned whatever has been read so far,
provided that call is made at all (no further `read` once the buffer is full or after EOF).
`none` = `Err(e)`.  `i` = number of `read` calls made so far. -/

def readUpToFailAux (limit fail : Nat) : Nat → Bytes → Bytes → List Nat → Option Bytes
  | i, acc, data, [] =>
    -- chunk schedule used up: the reader hands out everything it has
    if acc.length = limit then some acc
    else if i = fail then none
    else
      let n := min (limit - acc.length) data.length
      if n = 0 then some acc                                  -- EOF
      else if (acc ++ data.take n).length = limit then some (acc ++ data.take n)
      else if i + 1 = fail then none                          -- the read that would have seen EOF
      else some (acc ++ data.take n)
  | i, acc, data, c :: cs =>
    if acc.length = limit then some acc
    else if i = fail then none
    else
      let n := min c (min (limit - acc.length) data.length)
      if n = 0 then some acc
      else readUpToFailAux limit fail (i + 1) (acc ++ data.take n) (data.drop n) cs

def readUpToFail (limit : Nat) (data : Bytes) (cuts : List Nat) (fail : Nat) : Option Bytes :=
  readUpToFailAux limit fail 0 [] data cuts

/-- `HeaderCodec::read_request` over such a reader (`read_up_to(..).await?`) -/
def readRequestFail (limit : Nat) (data : Bytes) (cuts : List Nat) (fail : Nat) : Option HeaderRequest :=
  (readUpToFail limit data cuts fail).bind parseHeaderRequest

/-- `HeaderCodec::read_response` over such a reader -/
def readResponsesFail (limit : Nat) (data : Bytes) (cuts : List Nat) (fail : Nat) : Option (List HeaderResponse) :=
  (readUpToFail limit data cuts fail).bind (fun buf =>
    let msgs := parseFrames decodeResponse buf.length buf
    if msgs.isEmpty then none else some msgs)

end Lumina.Model.Framing
